#!/bin/sh
# Build the verifier from files on disk only (offline).
set -e
cd /verif
export GOFLAGS=-mod=mod GOPROXY=off GOSUMDB=off GOTOOLCHAIN=local
mkdir -p bin evidence replays .cache
go build -o bin/bxv ./cmd/bxv
echo "bxv built"
