// Injected by bxv through `go test -overlay` (never written into /repo).
//
// Executable transcription of the spec functions of /verif/spec (Eval,
// Resolve, EqSpec, InSpec, ...) used to turn a failed obligation into a
// failing input of the real code: the real Evaluate/Execute are run side by
// side with this reference on a battery of inputs chosen for the property,
// and any disagreement (or panic, or (true, err)) is reported. The reference
// is NOT part of any proof.

package bexpr

import (
	"time"
	"encoding/json"
	"errors"
	"fmt"
	"os"
	"reflect"
	"regexp"
	"sort"
	"strconv"
	"strings"
	"sync"
	"testing"

	"github.com/hashicorp/go-bexpr/grammar"
	"github.com/mitchellh/pointerstructure"
)

type bxvOutcome int

const (
	bxvF bxvOutcome = iota
	bxvT
	bxvE
)

func (o bxvOutcome) String() string { return [...]string{"false", "true", "error"}[o] }

func bxvB3(b bool) bxvOutcome {
	if b {
		return bxvT
	}
	return bxvF
}

func bxvNeg(o bxvOutcome) bxvOutcome {
	switch o {
	case bxvT:
		return bxvF
	case bxvF:
		return bxvT
	}
	return bxvE
}

type bxvLocal struct {
	name  string
	path  []string
	value interface{}
}

type bxvEnv struct {
	tag        string
	hook       ValueTransformationHookFn
	hasUnknown bool
	unknown    interface{}
	locals     []bxvLocal
}

// ---- Resolve -----------------------------------------------------------------

const (
	bxvVal = iota
	bxvAbsent
	bxvErr
)

func bxvGet(d interface{}, parts []string, env bxvEnv) (interface{}, error) {
	p := pointerstructure.Pointer{Parts: parts, Config: pointerstructure.Config{TagName: env.tag, ValueTransformationHook: env.hook}}
	return p.Get(d)
}

func bxvDerefAll(v reflect.Value) (reflect.Value, bool) {
	for v.Kind() == reflect.Ptr {
		if v.IsNil() {
			return v, false
		}
		v = v.Elem()
	}
	return v, true
}

func bxvResolveGlobal(d interface{}, p []string, env bxvEnv) (interface{}, int) {
	val, err := bxvGet(d, p, env)
	if err == nil {
		return val, bxvVal
	}
	if errors.Is(err, pointerstructure.ErrNotFound) {
		if env.hasUnknown {
			return env.unknown, bxvVal
		}
		if len(p) >= 2 {
			pv, _ := bxvGet(d, p[:len(p)-1], env)
			rv, _ := bxvDerefAll(reflect.ValueOf(pv))
			if rv.Kind() == reflect.Map {
				return nil, bxvAbsent
			}
		}
	}
	return nil, bxvErr
}

func bxvResolveFrom(d interface{}, p []string, env bxvEnv, j int) (interface{}, int) {
	if j < 0 {
		return bxvResolveGlobal(d, p, env)
	}
	lv := env.locals[j]
	if lv.name != p[0] {
		return bxvResolveFrom(d, p, env, j-1)
	}
	if len(lv.path) == 0 {
		if len(p) > 1 {
			return nil, bxvErr
		}
		return lv.value, bxvVal
	}
	np := append(append([]string(nil), lv.path...), p[1:]...)
	return bxvResolveFrom(d, np, env, j-1)
}

func bxvResolve(d interface{}, p []string, env bxvEnv) (interface{}, int) {
	if len(p) != 0 && len(env.locals) > 0 {
		return bxvResolveFrom(d, p, env, len(env.locals)-1)
	}
	return bxvResolveGlobal(d, p, env)
}

// ---- match operators -----------------------------------------------------------

func bxvIsInt(k reflect.Kind) bool  { return k >= reflect.Int && k <= reflect.Int64 }
func bxvIsUint(k reflect.Kind) bool { return k >= reflect.Uint && k <= reflect.Uint64 }

// literal read for a kind: (value, ok, syntaxError)
func bxvLit(k reflect.Kind, raw string) (interface{}, bool, bool) {
	var v interface{}
	var err error
	switch {
	case k == reflect.Bool:
		v, err = strconv.ParseBool(raw)
	case bxvIsInt(k):
		v, err = strconv.ParseInt(raw, 0, 64)
	case bxvIsUint(k):
		v, err = strconv.ParseUint(raw, 0, 64)
	case k == reflect.Float32:
		var f float64
		f, err = strconv.ParseFloat(raw, 32)
		v = float32(f)
	case k == reflect.Float64:
		v, err = strconv.ParseFloat(raw, 64)
	default:
		return raw, true, false
	}
	if err != nil {
		return nil, false, errors.Is(err, strconv.ErrSyntax)
	}
	return v, true, false
}

func bxvScalar(k reflect.Kind) bool {
	return k == reflect.Bool || bxvIsInt(k) || bxvIsUint(k) || k == reflect.Float32 || k == reflect.Float64 || k == reflect.String
}

func bxvEq(v reflect.Value, raw string) bxvOutcome {
	k := v.Kind()
	if !bxvScalar(k) {
		return bxvE
	}
	lit, ok, _ := bxvLit(k, raw)
	if !ok {
		return bxvE
	}
	switch {
	case k == reflect.Bool:
		return bxvB3(v.Bool() == lit.(bool))
	case bxvIsInt(k):
		return bxvB3(v.Int() == lit.(int64))
	case bxvIsUint(k):
		return bxvB3(v.Uint() == lit.(uint64))
	case k == reflect.Float32:
		return bxvB3(float32(v.Float()) == lit.(float32))
	case k == reflect.Float64:
		return bxvB3(v.Float() == lit.(float64))
	}
	return bxvB3(v.String() == raw)
}

func bxvIn(v reflect.Value, raw string) bxvOutcome {
	switch v.Kind() {
	case reflect.Map:
		kt := v.Type().Key()
		lit, ok, _ := bxvLit(kt.Kind(), raw)
		if !ok {
			return bxvE
		}
		lv := reflect.ValueOf(lit)
		if !lv.Type().ConvertibleTo(kt) {
			return bxvE
		}
		return bxvB3(v.MapIndex(lv.Convert(kt)).IsValid())
	case reflect.Slice, reflect.Array:
		et := v.Type().Elem()
		for et.Kind() == reflect.Ptr {
			et = et.Elem()
		}
		ek := et.Kind()
		if ek == reflect.Interface {
			for i := 0; i < v.Len(); i++ {
				it, ok := bxvDerefAll(v.Index(i).Elem())
				if !ok || !it.IsValid() {
					continue
				}
				_, lok, syn := bxvLit(it.Kind(), raw)
				if !lok {
					if syn {
						continue
					}
					return bxvE
				}
				if !bxvScalar(it.Kind()) {
					return bxvE
				}
				if bxvEq(it, raw) == bxvT {
					return bxvT
				}
			}
			return bxvF
		}
		if _, lok, _ := bxvLit(ek, raw); !lok {
			return bxvE
		}
		if !bxvScalar(ek) {
			return bxvE
		}
		for i := 0; i < v.Len(); i++ {
			it, ok := bxvDerefAll(v.Index(i))
			if !ok {
				continue
			}
			if bxvEq(it, raw) == bxvT {
				return bxvT
			}
		}
		return bxvF
	case reflect.String:
		return bxvB3(strings.Contains(v.String(), raw))
	}
	return bxvE
}

func bxvEmpty(v reflect.Value) bxvOutcome {
	switch v.Kind() {
	case reflect.Array, reflect.Chan, reflect.Map, reflect.Slice, reflect.String:
		return bxvB3(v.Len() == 0)
	}
	return bxvE
}

var bxvBytes = reflect.TypeOf([]byte{})

func bxvMatches(v reflect.Value, raw string) bxvOutcome {
	if !v.IsValid() || !v.Type().ConvertibleTo(bxvBytes) {
		return bxvE
	}
	re, err := regexp.Compile(raw)
	if err != nil {
		return bxvE
	}
	return bxvB3(re.Match(v.Convert(bxvBytes).Interface().([]byte)))
}

var bxvDisposition = map[grammar.MatchOperator]bool{
	grammar.MatchEqual: false, grammar.MatchNotEqual: true, grammar.MatchIn: false, grammar.MatchNotIn: true,
	grammar.MatchIsEmpty: true, grammar.MatchIsNotEmpty: false, grammar.MatchMatches: false, grammar.MatchNotMatches: true,
}

func bxvMatch(m *grammar.MatchExpression, d interface{}, env bxvEnv) bxvOutcome {
	val, st := bxvResolve(d, m.Selector.Path, env)
	switch st {
	case bxvErr:
		return bxvE
	case bxvAbsent:
		return bxvB3(bxvDisposition[m.Operator])
	}
	if m.Operator < grammar.MatchEqual || m.Operator > grammar.MatchNotMatches {
		return bxvE
	}
	if jn, ok := val.(json.Number); ok {
		if i, err := strconv.ParseInt(string(jn), 10, 64); err == nil {
			val = i
		} else if f, err := strconv.ParseFloat(string(jn), 64); err == nil {
			val = f
		} else {
			return bxvE
		}
	}
	rv := reflect.Indirect(reflect.ValueOf(val))
	raw := ""
	if m.Value != nil {
		raw = m.Value.Raw
	}
	var pos bxvOutcome
	switch m.Operator {
	case grammar.MatchEqual, grammar.MatchNotEqual:
		pos = bxvEq(rv, raw)
	case grammar.MatchIn, grammar.MatchNotIn:
		pos = bxvIn(rv, raw)
	case grammar.MatchIsEmpty, grammar.MatchIsNotEmpty:
		pos = bxvEmpty(rv)
	default:
		pos = bxvMatches(rv, raw)
	}
	if m.Operator%2 == 1 {
		return bxvNeg(pos)
	}
	return pos
}

// ---- quantifiers ------------------------------------------------------------------

func bxvColl(c *grammar.CollectionExpression, d interface{}, env bxvEnv) bxvOutcome {
	val, st := bxvResolve(d, c.Selector.Path, env)
	switch st {
	case bxvErr:
		return bxvE
	case bxvAbsent:
		return bxvB3(c.Op == grammar.CollectionOpAll)
	}
	v := reflect.ValueOf(val)
	var keys []reflect.Value
	switch v.Kind() {
	case reflect.Map:
		if v.Type().Key() != reflect.TypeOf("") {
			return bxvE
		}
		keys = v.MapKeys()
		sort.Slice(keys, func(i, j int) bool { return keys[i].String() < keys[j].String() })
	case reflect.Slice, reflect.Array:
	default:
		return bxvE
	}
	nb := c.NameBinding
	for i := 0; i < v.Len(); i++ {
		if nb.Mode == grammar.CollectionBindIndexAndValue && nb.Index == nb.Value {
			return bxvE
		}
		locals := append([]bxvLocal(nil), env.locals...)
		if v.Kind() == reflect.Map {
			k := keys[i]
			if nb.Value != "" {
				locals = append(locals, bxvLocal{name: nb.Value, path: append(append([]string(nil), c.Selector.Path...), k.String())})
			}
			if nb.Default != "" {
				locals = append(locals, bxvLocal{name: nb.Default, value: k.Interface()})
			}
			if nb.Index != "" {
				locals = append(locals, bxvLocal{name: nb.Index, value: k.Interface()})
			}
		} else {
			p := append(append([]string(nil), c.Selector.Path...), strconv.Itoa(i))
			if nb.Default != "" {
				locals = append(locals, bxvLocal{name: nb.Default, path: p})
			}
			if nb.Value != "" {
				locals = append(locals, bxvLocal{name: nb.Value, path: p})
			}
			if nb.Index != "" {
				locals = append(locals, bxvLocal{name: nb.Index, value: i})
			}
		}
		e2 := env
		e2.locals = locals
		o := bxvRefEval(c.Inner, d, e2)
		if o == bxvE {
			return bxvE
		}
		if (o == bxvT && c.Op == grammar.CollectionOpAny) || (o == bxvF && c.Op == grammar.CollectionOpAll) {
			return o
		}
	}
	return bxvB3(c.Op == grammar.CollectionOpAll)
}

func bxvRefEval(e grammar.Expression, d interface{}, env bxvEnv) bxvOutcome {
	switch n := e.(type) {
	case *grammar.UnaryExpression:
		if n.Operator == grammar.UnaryOpNot {
			return bxvNeg(bxvRefEval(n.Operand, d, env))
		}
	case *grammar.BinaryExpression:
		switch n.Operator {
		case grammar.BinaryOpAnd:
			l := bxvRefEval(n.Left, d, env)
			if l != bxvT {
				return l
			}
			return bxvRefEval(n.Right, d, env)
		case grammar.BinaryOpOr:
			l := bxvRefEval(n.Left, d, env)
			if l != bxvF {
				return l
			}
			return bxvRefEval(n.Right, d, env)
		}
	case *grammar.MatchExpression:
		return bxvMatch(n, d, env)
	case *grammar.CollectionExpression:
		return bxvColl(n, d, env)
	}
	return bxvE
}

// ---- running the real code ------------------------------------------------------------

type bxvCase struct {
	Expr  string
	Data  interface{}
	Desc  string
	Opts  []Option
	OptsD string
	env   bxvEnv
}

type bxvFailure struct {
	Kind   string `json:"kind"` // panic | err-with-true | mismatch | nondeterministic | race | filter
	Expr   string `json:"expression"`
	Datum  string `json:"datum"`
	Opts   string `json:"options,omitempty"`
	Got    string `json:"got"`
	Want   string `json:"want,omitempty"`
	Detail string `json:"detail,omitempty"`
}

func bxvDescribe(d interface{}) (s string) {
	defer func() {
		if recover() != nil {
			s = fmt.Sprintf("<%T>", d)
		}
	}()
	s = fmt.Sprintf("%#v", d)
	if len(s) > 300 {
		s = s[:300] + "..."
	}
	return s
}

// bxvRun evaluates one case on the real code; returns the outcome and a panic message.
func bxvRun(c bxvCase) (res bool, err error, pan string, created bool) {
	ev, cerr := CreateEvaluator(c.Expr, c.Opts...)
	if cerr != nil {
		return false, cerr, "", false
	}
	created = true
	defer func() {
		if r := recover(); r != nil {
			pan = fmt.Sprint(r)
		}
	}()
	res, err = ev.Evaluate(c.Data)
	return res, err, "", true
}

func bxvCheck(c bxvCase, withRef bool, fails *[]bxvFailure) {
	res, err, pan, created := bxvRun(c)
	if !created {
		return
	}
	desc := c.Desc
	if desc == "" {
		desc = bxvDescribe(c.Data)
	}
	if pan != "" {
		*fails = append(*fails, bxvFailure{Kind: "panic", Expr: c.Expr, Datum: desc, Opts: c.OptsD, Got: "panic: " + pan})
		return
	}
	if err != nil && res {
		*fails = append(*fails, bxvFailure{Kind: "err-with-true", Expr: c.Expr, Datum: desc, Opts: c.OptsD, Got: "(true, " + err.Error() + ")"})
		return
	}
	if !withRef {
		return
	}
	got := bxvB3(res)
	if err != nil {
		got = bxvE
	}
	ast, perr := grammar.Parse("", []byte(c.Expr))
	if perr != nil {
		return
	}
	// the reference evaluates the tree of the independent reference parser, not
	// the tree the code under test built: a parser action that builds the wrong
	// node (binding mode, operator, literal) shows up here too
	if rt, ok := bxvRefParse(c.Expr); ok {
		if re, isE := rt.(grammar.Expression); isE {
			ast = re
		}
	}
	env := c.env
	if env.tag == "" {
		env.tag = "bexpr"
	}
	var want bxvOutcome
	func() {
		defer func() {
			if r := recover(); r != nil {
				want = bxvE // the reference panicking means the case is outside its domain; skip
				got = bxvE
			}
		}()
		want = bxvRefEval(ast.(grammar.Expression), c.Data, env)
	}()
	if got != want {
		d := ""
		if err != nil {
			d = err.Error()
		}
		*fails = append(*fails, bxvFailure{Kind: "mismatch", Expr: c.Expr, Datum: desc, Opts: c.OptsD, Got: got.String(), Want: want.String(), Detail: d})
	}
}

// ---- data ------------------------------------------------------------------------------

type bxvNamedStr string
type bxvNamedInt int
type bxvOctet uint8
type bxvInner struct {
	A string
	N int
	L []string
}
type bxvHidden struct {
	Pub     string
	priv    string
	Skip    string `bexpr:"-"`
	Renamed string `bexpr:"alias"`
	Meta    map[string]string `bexpr:"meta"`
	J       string            `json:"jname"`
}

// bxvWrap is replaced by its content under bxvUnwrapHook (C18: the hook's
// replacement value is what the operators and the absent-key rule see).
type bxvWrap struct{ V map[string]interface{} }

func bxvUnwrapHook(v reflect.Value) reflect.Value {
	if v.IsValid() && v.CanInterface() {
		if w, ok := v.Interface().(bxvWrap); ok {
			return reflect.ValueOf(w.V)
		}
	}
	return v
}

func bxvValues() []interface{} {
	sp1, sp2 := "abc", "x"
	psp1 := &sp1
	nsp := bxvNamedStr("abc")
	i1, i2 := 1, 2
	pi := &i1
	ppi := &pi
	var nilp *int
	s := "abc"
	var nilMap map[string]int
	var nilIface interface{}
	f32 := float32(1) + 1.0/(1<<23)
	return []interface{}{
		nil, true, false, int(1), int8(-2), int16(3), int32(4), int64(5), uint(6), uint8(7), uint16(8), uint32(9), uint64(10), uintptr(11),
		float32(1.5), f32, float64(2.5), complex64(1), complex128(2), "abc", "", "1", "true", bxvNamedStr("abc"), bxvNamedInt(1),
		[]int{1, 2}, []string{"abc", "x"}, []interface{}{1, nil, "abc", 2.5, true}, []interface{}{}, []*int{&i1, nil, &i2}, []**int{ppi}, [2]int{1, 2},
		[]byte("abc"), []bxvOctet{97, 98}, []float32{1.5}, []bool{true}, []uint8{1}, []bxvNamedStr{"abc"},
		map[string]int{"abc": 1}, map[string]string{}, map[int]string{1: "a"}, map[bxvNamedStr]int{"abc": 1}, map[interface{}]int{"abc": 1, 1: 2}, map[float64]int{1.5: 1}, map[bool]int{true: 1}, nilMap,
		pi, ppi, nilp, &s, nilIface, make(chan int), func() {}, struct{}{}, bxvInner{A: "abc", N: 1}, &bxvInner{A: "abc"},
		[]*string{&sp1, nil, &sp2}, [2]*string{&sp2, &sp1}, []**string{&psp1}, []*bxvNamedStr{&nsp}, []*bool{nil}, []*float64{nil},
		[]interface{}{5, 0}, []interface{}{7, 3, 0}, []interface{}{true, false}, []interface{}{uint(3), uint(0)}, []interface{}{2.5, 0.0}, []interface{}{float32(2.5), float32(0)},
		[]interface{}{float64(8080), float64(0), "abc"}, []interface{}{"", "abc"}, []interface{}{nil, 4, nil, 0}, []interface{}{int8(1), int64(0)},
		json.Number("1"), json.Number("1.5"), json.Number("x"), []json.Number{"1"}, json.Number("9007199254740993"), int64(9007199254740993), uint64(18446744073709551615), float64(9007199254740992),
	}
}

var bxvLits = []string{"1", "abc", "true", "1.5", "-2", "0x1", "a.*", "[", "1e39", "1.000000059604644775390626", "", "9007199254740993", "9007199254740992", "18446744073709551615"}

var bxvOps = []string{"X == %s", "X != %s", "%s in X", "%s not in X", "X contains %s", "X is empty", "X is not empty", "X matches %s", "X not matches %s"}

func bxvQuote(l string) string { return strconv.Quote(l) }

func bxvOpCases() []bxvCase {
	var out []bxvCase
	for _, v := range bxvValues() {
		for _, op := range bxvOps {
			lits := bxvLits
			if !strings.Contains(op, "%s") {
				lits = []string{""}
			}
			for _, l := range lits {
				expr := op
				if strings.Contains(op, "%s") {
					expr = fmt.Sprintf(op, bxvQuote(l))
				}
				for _, shape := range []int{0, 1, 2, 3} {
					var d interface{}
					switch shape {
					case 0:
						d = map[string]interface{}{"X": v}
					case 1:
						d = struct{ X interface{} }{v}
					case 2:
						d = map[string]interface{}{"X": &v}
					case 3:
						if v == nil {
							continue
						}
						// typed field
						st := reflect.New(reflect.StructOf([]reflect.StructField{{Name: "X", Type: reflect.TypeOf(v)}})).Elem()
						st.Field(0).Set(reflect.ValueOf(v))
						d = st.Interface()
					}
					out = append(out, bxvCase{Expr: expr, Data: d, Desc: fmt.Sprintf("shape%d X=%s", shape, bxvDescribe(v))})
				}
			}
		}
	}
	return out
}

func bxvBoolCases() []bxvCase {
	d := map[string]interface{}{"T": 1, "F": 2, "S": []int{1}, "M": map[string]int{"a": 1}}
	atoms := []string{"T == 1", "F == 1", "Missing == 1", "M.zz == 1", "S == 1", "T == x",
		"(any S as x { x == 1 })", "(any S as x { x == 9 })", "(any T as x { x == 1 })", "(all S as x { x == zz })", "(all M as k { k == a })"}
	var out []bxvCase
	for _, a := range atoms {
		out = append(out, bxvCase{Expr: "not " + a, Data: d}, bxvCase{Expr: "not not " + a, Data: d}, bxvCase{Expr: "not (" + a + ")", Data: d})
		for _, b := range atoms {
			for _, f := range []string{"%s and %s", "%s or %s", "not %s and %s", "not %s or %s", "%s and not %s", "%s or not %s", "not (%s and %s)", "not (%s or %s)", "(not %s) or (not %s)", "(not %s) and (not %s)", "not (%s and not %s)", "not (%s or not %s)", "not (not %s and %s)", "not (not %s or not %s)", "not (%s and not (%s))"} {
				out = append(out, bxvCase{Expr: fmt.Sprintf(f, a, b), Data: d})
			}
			for _, c := range atoms[:3] {
				out = append(out, bxvCase{Expr: fmt.Sprintf("%s and %s or %s", a, b, c), Data: d}, bxvCase{Expr: fmt.Sprintf("%s or %s and %s", a, b, c), Data: d})
			}
		}
	}
	return out
}

func bxvPathCases() []bxvCase {
	pm := map[string]string{"a": "b"}
	ppm := &pm
	var nilpm *map[string]string
	h := bxvHidden{Pub: "p", priv: "q", Skip: "s", Renamed: "r", Meta: map[string]string{"k": "v"}, J: "b"}
	data := []interface{}{
		map[string]interface{}{"M": map[string]interface{}{"a": 1, "n": map[string]int{"x": 1}}, "L": []int{1, 2}, "S": "s", "N": nil},
		struct {
			M  map[string]string
			PM *map[string]string
			IM interface{}
			St bxvInner
			L  []bxvInner
			H  bxvHidden
			PH *bxvHidden
			PPM  **map[string]string
			PPPM ***map[string]string
			NPM  **map[string]string
			LPM  []**map[string]string
			W    bxvWrap
			LW   []bxvWrap
		}{M: pm, PM: &pm, IM: pm, St: bxvInner{A: "a"}, L: []bxvInner{{A: "a"}}, H: h, PH: &h, PPM: &ppm, PPPM: func() ***map[string]string { q := &ppm; return &q }(), NPM: &nilpm,
			LPM: []**map[string]string{&ppm}, W: bxvWrap{V: map[string]interface{}{"a": 1, "n": map[string]int{"x": 1}}}, LW: []bxvWrap{{V: map[string]interface{}{"a": "b"}}}},
	}
	sels := []string{"M.a", "M.zz", "M.n.x", "M.n.zz", "M.zz.y", "Zz", "Zz.a", "L.0", "L.5", "L.zz", "S.x", "N.x", "PM.a", "PM.zz", "IM.zz", "St.A", "St.Zz", "L.0.A", "L.0.Zz",
		"H.Pub", "H.priv", "H.Skip", "H.Renamed", "H.alias", "H.meta.k", "H.meta.zz", "H.Meta.k", "PH.meta.zz", "PH.alias", "H.jname", "H.J", "PH.jname", "PPM.a", "PPM.zz", "PPPM.zz", "NPM.zz", "LPM.0.zz", "LPM.0.a", "W.a", "W.zz", "W.n.x", "W.n.zz", "W.V.zz", "LW.0.zz", "LW.0.a", `"/M/a"`, `"/M/zz"`, `M["a"]`, `M["zz"]`}
	ops := []string{"%s == 1", "%s != 1", "1 in %s", "1 not in %s", "%s is empty", "%s is not empty", "%s matches `x`", "%s not matches `x`", "%s == b", "%s == v",
		`%s == ""`, `%s != ""`, "%s == ``", `"" in %s`, `"" not in %s`, "%s matches ``", "%s not matches ``", `%s contains ""`, "%s == 0", "%s != 0", "%s == false", "%s == nil", "%s != nil",
		"any %s as x { x == 1 }", "all %s as x { x == 1 }", "any %s as k, v { v == 1 }"}
	unk := []struct {
		o []Option
		d string
		e bxvEnv
	}{
		{nil, "", bxvEnv{}},
		{[]Option{WithUnknownValue(1)}, "WithUnknownValue(1)", bxvEnv{hasUnknown: true, unknown: 1}},
		{[]Option{WithUnknownValue("b")}, `WithUnknownValue("b")`, bxvEnv{hasUnknown: true, unknown: "b"}},
		{[]Option{WithUnknownValue(nil)}, "WithUnknownValue(nil)", bxvEnv{hasUnknown: true, unknown: nil}},
		{[]Option{WithTagName("json")}, `WithTagName("json")`, bxvEnv{tag: "json"}},
		{[]Option{WithTagName("bexpr"), WithHookFn(nil), WithMaxExpressions(0)}, "neutral options", bxvEnv{}},
		{[]Option{WithUnknownValue(1), WithTagName("json"), WithTagName("bexpr")}, "unknown + repeated tag", bxvEnv{hasUnknown: true, unknown: 1}},
		{[]Option{WithHookFn(func(v reflect.Value) reflect.Value { return v })}, "identity hook", bxvEnv{hook: func(v reflect.Value) reflect.Value { return v }}},
		{[]Option{WithHookFn(bxvUnwrapHook)}, "unwrap hook", bxvEnv{hook: bxvUnwrapHook}},
		{[]Option{WithHookFn(bxvUnwrapHook), WithTagName("json")}, "unwrap hook + json tag", bxvEnv{hook: bxvUnwrapHook, tag: "json"}},
		{[]Option{WithTagName("json"), WithHookFn(func(v reflect.Value) reflect.Value { return v }), WithMaxExpressions(0)}, "json tag + identity hook + budget 0", bxvEnv{hook: func(v reflect.Value) reflect.Value { return v }, tag: "json"}},
		{[]Option{WithTagName("json"), WithHookFn(nil), WithHookFn(bxvUnwrapHook), WithTagName("bexpr")}, "repeated hook and tag, last wins", bxvEnv{hook: bxvUnwrapHook}},
		{[]Option{WithHookFn(bxvUnwrapHook), WithUnknownValue(1)}, "unwrap hook + WithUnknownValue(1)", bxvEnv{hook: bxvUnwrapHook, hasUnknown: true, unknown: 1}},
	}
	var out []bxvCase
	for _, d := range data {
		for _, s := range sels {
			for _, op := range ops {
				if strings.HasPrefix(s, `"`) && (strings.HasPrefix(op, "any") || strings.HasPrefix(op, "all")) {
					continue
				}
				for _, u := range unk {
					out = append(out, bxvCase{Expr: fmt.Sprintf(op, s), Data: d, Opts: u.o, OptsD: u.d, env: u.e})
				}
			}
		}
	}
	return out
}

func bxvCollCases() []bxvCase {
	data := []interface{}{
		map[string]interface{}{
			"L": []int{1, 2, 3}, "E": []int{}, "LS": []interface{}{map[string]interface{}{"f": 1, "g": []int{1, 2}}, map[string]interface{}{"f": 2, "g": []int{}}, 5},
			"M": map[string]interface{}{"a": map[string]interface{}{"f": 1}, "b": 5, "c": map[string]interface{}{"f": 2}}, "EM": map[string]int{}, "IM": map[int]int{1: 1},
			"i": []int{1, 2}, "k": map[string]int{"k": 1, "x": 2}, "x": []int{7}, "v": 9, "S": "str",
			"G": []interface{}{map[string]interface{}{"Mem": []string{"bob", "al"}}, map[string]interface{}{"Mem": []string{"cy"}}},
			"g": []interface{}{map[string]interface{}{"Mem": []string{"zed"}}},
			"MIX": []interface{}{1, "foo"}, "NILS": []interface{}{nil, 1}, "JN": []interface{}{json.Number("7"), json.Number("1.0")}, "ES": []struct{ A int }{}, "ESI": []bxvInner{},
			"NK": map[bxvNamedStr]int{"a": 1, "b": 2}, "PS": []*string{nil}, "LL": [][]int{{1}, {}},
		},
	}
	exprs := []string{
		"any L as x { x == 2 }", "all L as x { x == 2 }", "any L as x { x == 9 }", "all L as x { x != 9 }", "any E as x { x == 1 }", "all E as x { x == 1 }",
		"any L as i, x { x == 2 and i == 1 }", "any L as i, _ { i == 2 }", "any L as _, x { x == 3 }", "any L as i, i { i == 1 }", "any E as i, i { i == 1 }",
		"any LS as x { x.f == 2 }", "any LS as x { x.f == 1 }", "all LS as x { x.f == 1 }", "any LS as x { x.f == 7 }", "any LS as x { any x.g as y { y == 2 } }",
		"any M as k { k == b }", "any M as k, v { v.f == 2 }", "any M as k, v { v.f == 1 }", "all M as k, v { v.f == 1 }", "any M as _, v { v.f == 2 }", "any M as _, v { v == 5 }",
		"all M as _, v { v.f == 1 }", "any M as k, _ { k == c }", "any EM as k { k == a }", "all EM as k { k == a }", "any IM as k { k == 1 }", "any S as x { x == s }", "any v as x { x == 1 }",
		"any Zz as x { x == 1 }", "any M.zz as x { x == 1 }", "all M.zz as x { x == 1 }",
		"any i as i, v { v == 1 }", "any i as j, v { v == 2 and j == 1 }", "any k as k, v { v == 2 }", "any k as k { k == x }", "any x as x { x == 7 }", "any L as v { v == 2 }",
		"any L as x { any L as x { x == 3 } }", "any L as x { any L as y { x == 1 and y == 3 } }", "all L as x { any L as y { y == x } }",
		"any G as g { any g.Mem as g { g == bob } }", "any G as g { any g.Mem as m { m == cy } }", "any G as a { any a.Mem as b { any G as a { a.Mem is not empty } } }",
		"any L as x { x == 1 } and all L as y { y != 9 }", "(any L as x { x == 9 }) or (any L as x { x == 3 })", "not (any L as x { x == 9 })",
		`any MIX as x { x == "foo" }`, "any MIX as x { x == foo }", "any MIX as x { x == 1 }", "all MIX as x { x != 2 }", "any NILS as x { x == 1 }", "all NILS as x { x == 1 }", "any JN as x { x == 1 }", "any JN as x { x == 7 }",
		"any ES as x { x == 1 }", "all ES as x { x == 1 }", "any ESI as x { x.A == a }", "any NK as k, v { v == 1 }", "all NK as k, v { k != zzz }", "any NK as k { k == a }", "any NK as _, v { v == 2 }", "any PS as x { x == a }",
		"any LL as x { any x as y { y == 1 } }", "all LL as x { x is not empty }", "any L as x { x == 2 } or Zz == 1", "(any L as x { x == 9 }) or Zz == 1", "(any S as x { x == s }) or v == 9", "(any S as x { x == s }) and v == 9", "(any L as x { x == 2 }) and Zz == 1",
		`any "/L" as x { x == 2 }`, `any L as x { "/x" == 2 }`, `any LS as x { "/x/f" == 2 }`,
	}
	var out []bxvCase
	for _, d := range data {
		for _, e := range exprs {
			out = append(out, bxvCase{Expr: e, Data: d})
		}
	}
	return out
}

// determinism: the same call repeated must give the same outcome
func bxvDeterminism(fails *[]bxvFailure) int {
	n := 0
	d := map[string]interface{}{"M": map[string]interface{}{"a": map[string]interface{}{"x": 1}, "b": 5, "c": map[string]interface{}{"x": 2}, "d": "s"}}
	exprs := []string{"any M as k, v { v.x == 1 }", "all M as k, v { v.x == 1 }", "any M as _, v { v.x == 2 }", "all M as _, v { v.x == 9 }", "any M as k { k == b }", "any M as _, v { v == s }", "all M as _, v { v != 5 }",
		`"web" in IK`, `"web" not in IK`, `"99999999999999999999" in IK2`, `1 in IK2`, `"web" in IK3`,
		"any T as _, v { v == abc }", "all T as _, v { v != abc }", "any T as k, v { v == abc }", "any T as k { k == node }", "all U as _, v { v == abc }", "any U as _, v { v == abc }"}
	// keys that collide under case folding, are prefixes of one another, or
	// sort differently as bytes and as runes: one entry errors, its twin decides
	d["T"] = map[string]interface{}{"Node": "abc", "node": 5, "NODE": 6}
	d["IK"] = map[interface{}]int{"web": 1, struct{ A int }{1}: 2, [1]int{1}: 3}
	d["IK2"] = map[interface{}]int{"99999999999999999999": 1, 1: 2, 2.5: 3, true: 4}
	d["IK3"] = map[interface{}]interface{}{"web": 1, "db": nil, 7: "x"}
	d["U"] = map[string]interface{}{"a": "abc", "a\x00": 5, "ab": "abc", "é": 5, "z": "abc", "Z": 5}
	for _, e := range exprs {
		seen := map[string]int{}
		for i := 0; i < 300; i++ {
			res, err, pan, ok := bxvRun(bxvCase{Expr: e, Data: d})
			if !ok {
				break
			}
			n++
			seen[fmt.Sprintf("%v/%v/%v", res, err != nil, pan != "")]++
		}
		if len(seen) > 1 {
			*fails = append(*fails, bxvFailure{Kind: "nondeterministic", Expr: e, Datum: bxvDescribe(d), Got: fmt.Sprint(seen)})
		}
	}
	// filters over maps
	f, err := CreateFilter("x == 1")
	if err == nil && f != nil {
		md := map[string]interface{}{"a": map[string]int{"x": 1}, "b": 5, "c": map[string]int{"x": 2}}
		seen := map[string]int{}
		for i := 0; i < 300; i++ {
			func() {
				defer func() {
					if r := recover(); r != nil {
						seen["panic"]++
					}
				}()
				r, err := f.Execute(md)
				n++
				seen[fmt.Sprintf("%v/%v", r != nil, err != nil)]++
			}()
		}
		if len(seen) > 1 {
			*fails = append(*fails, bxvFailure{Kind: "nondeterministic", Expr: "Filter(x == 1).Execute", Datum: bxvDescribe(md), Got: fmt.Sprint(seen)})
		}
	}
	return n
}

// filters: Execute returns exactly the elements with Evaluate == true
func bxvFilterCases(fails *[]bxvFailure) int {
	n := 0
	type item struct{ X int }
	type items []item
	type ifaces []interface{}
	backing := []item{{1}, {2}, {1}}
	inputs := []interface{}{
		[]item{{1}, {2}, {1}}, items{{1}, {2}}, [3]item{{1}, {2}, {1}}, []item{}, map[string]item{"a": {1}, "b": {2}}, map[int]item{1: {1}}, map[string]item{},
		[]interface{}{item{1}, 5, item{1}}, []*item{{1}, nil}, nil, 5, "s", item{1}, &[]item{{1}}, []map[string]int{{"X": 1}, {"Y": 1}},
		[]interface{}{map[string]interface{}{"X": 1}, map[string]interface{}{"X": 2}, map[string]int{"X": 1}}, ifaces{map[string]interface{}{"X": 1}, &item{1}}, []interface{}{&item{1}, item{2}, nil},
		[2]interface{}{map[string]int{"X": 1}, map[string]int{"X": 3}}, map[string]interface{}{"a": map[string]int{"X": 1}, "b": item{2}}, []fmt.Stringer{nil}, []**item{},
		[0]item{}, []item(nil), items(nil), backing[:0], backing[:1], map[string]item(nil), map[int]item{}, [1]item{{1}}, []interface{}{}, map[string]interface{}{},
	}
	for _, expr := range []string{"X == 1", "X != 1", "not X == 1", "Zz == 1"} {
		f, err := CreateFilter(expr)
		if err != nil || f == nil {
			continue
		}
		ev, _ := CreateEvaluator(expr)
		for _, in := range inputs {
			n++
			func() {
				before := bxvDescribe(in)
				defer func() {
					if r := recover(); r != nil {
						*fails = append(*fails, bxvFailure{Kind: "panic", Expr: "Filter(" + expr + ").Execute", Datum: before, Got: fmt.Sprint(r)})
					}
				}()
				res, err := f.Execute(in)
				if after := bxvDescribe(in); after != before {
					*fails = append(*fails, bxvFailure{Kind: "filter", Expr: expr, Datum: before, Got: "input modified: " + after})
				}
				rv := reflect.ValueOf(in)
				// a new container: a map result is non-nil and not the input map; a slice
				// result shares no storage with the input (observable through append)
				if err == nil && res != nil {
					out := reflect.ValueOf(res)
					switch {
					case rv.Kind() == reflect.Map && out.Kind() == reflect.Map:
						if out.IsNil() {
							*fails = append(*fails, bxvFailure{Kind: "filter", Expr: expr, Datum: before, Got: "nil map result", Want: "a new map"})
						} else if !rv.IsNil() && out.Pointer() == rv.Pointer() {
							*fails = append(*fails, bxvFailure{Kind: "filter", Expr: expr, Datum: before, Got: "the result is the input map", Want: "a new map"})
						}
					case rv.Kind() == reflect.Slice && out.Kind() == reflect.Slice && rv.Cap() > 0 && out.Cap() > 0:
						if out.Slice(0, 1).Index(0).Addr().Pointer() == rv.Slice(0, 1).Index(0).Addr().Pointer() {
							*fails = append(*fails, bxvFailure{Kind: "filter", Expr: expr, Datum: before, Got: "the result shares the input's storage", Want: "a new slice"})
						}
					}
				}
				want := "error"
				switch rv.Kind() {
				case reflect.Slice, reflect.Array:
					var kept []string
					w := "ok"
					for i := 0; i < rv.Len(); i++ {
						r, e := ev.Evaluate(rv.Index(i).Interface())
						if e != nil {
							w = "error"
							break
						}
						if r {
							kept = append(kept, bxvDescribe(rv.Index(i).Interface()))
						}
					}
					want = w
					if w == "ok" {
						want = fmt.Sprint(kept)
						if err == nil {
							out := reflect.ValueOf(res)
							wt := rv.Type()
							if rv.Kind() == reflect.Array {
								wt = reflect.SliceOf(rv.Type().Elem())
							}
							if out.Type() != wt {
								*fails = append(*fails, bxvFailure{Kind: "filter", Expr: expr, Datum: before, Got: "result type " + out.Type().String(), Want: wt.String()})
							}
						}
					}
				case reflect.Map:
					keep := map[string]string{}
					w := "ok"
					for _, k := range rv.MapKeys() {
						r, e := ev.Evaluate(rv.MapIndex(k).Interface())
						if e != nil {
							w = "error"
							break
						}
						if r {
							keep[bxvDescribe(k.Interface())] = bxvDescribe(rv.MapIndex(k).Interface())
						}
					}
					want = w
					if w == "ok" {
						want = fmt.Sprint(keep)
						if err == nil && reflect.TypeOf(res) != rv.Type() {
							*fails = append(*fails, bxvFailure{Kind: "filter", Expr: expr, Datum: before, Got: "result type " + reflect.TypeOf(res).String(), Want: rv.Type().String()})
						}
					}
				}
				got := "error"
				if err == nil {
					out := reflect.ValueOf(res)
					switch out.Kind() {
					case reflect.Slice:
						var kept []string
						for i := 0; i < out.Len(); i++ {
							kept = append(kept, bxvDescribe(out.Index(i).Interface()))
						}
						got = fmt.Sprint(kept)
					case reflect.Map:
						keep := map[string]string{}
						for _, k := range out.MapKeys() {
							keep[bxvDescribe(k.Interface())] = bxvDescribe(out.MapIndex(k).Interface())
						}
						got = fmt.Sprint(keep)
					default:
						got = "other:" + bxvDescribe(res)
					}
				} else if res != nil {
					*fails = append(*fails, bxvFailure{Kind: "filter", Expr: expr, Datum: before, Got: "error with non-nil result"})
				}
				if got != want {
					*fails = append(*fails, bxvFailure{Kind: "filter", Expr: expr, Datum: before, Got: got, Want: want})
				}
			}()
		}
	}
	var nf *Filter
	if r, err := nf.Execute(5); err != nil || r != 5 {
		*fails = append(*fails, bxvFailure{Kind: "filter", Expr: "nil filter", Datum: "5", Got: fmt.Sprint(r, err), Want: "5 <nil>"})
	}
	return n
}

// concurrency: one evaluator shared by goroutines (run under -race by bxv for C12)
func bxvConcurrent(fails *[]bxvFailure) int {
	exprs := []string{"S matches `a.*`", "S not matches `b`", "any L as x { x matches `a` }", "S == abc and S matches `^a`",
		"all A.B.C as v { v != bad }", "any A.B.C as i, v { v == z and i == 25 }", `all "/A/B/C" as v { v != bad }`, "any A.B.M as k, v { v == 3 }", "any L as x { any A.B.C as y { y == x } }"}
	var big []string
	for i := 0; i < 26; i++ {
		big = append(big, string(rune('a'+i)))
	}
	d := map[string]interface{}{"S": "abc", "L": []string{"a", "b"}, "A": map[string]interface{}{"B": map[string]interface{}{"C": big, "M": map[string]int{"p": 1, "q": 2, "r": 3}}}}
	// a list far longer than any table an implementation might pre-size
	long := make([]int, 3000)
	long[2999] = -1
	d["Long"] = long
	// (expected outcome known by construction: evaluating it once sequentially first would warm any lazily filled shared table)
	knownTrue := map[string]bool{"any Long as v { v == -1 }": true, "all Long as i, v { v == 0 or i == 2999 }": true}
	exprs = append([]string{"any Long as v { v == -1 }", "all Long as i, v { v == 0 or i == 2999 }"}, exprs...)
	n := 0
	// every expression under several option sets (the option list an evaluator
	// keeps is shared by all its calls too), and different data per goroutine
	optSets := [][]Option{nil, {WithUnknownValue("zz")}, {WithTagName("json"), WithUnknownValue(1), WithHookFn(func(v reflect.Value) reflect.Value { return v })}}
	for _, e0 := range append(append([]string(nil), exprs...), "any L as x { x == a and Missing == zz }", "all A.B.C as i, v { v != bad or Missing.x == 1 }") {
		for oi := 1; oi < len(optSets); oi++ {
			exprs = append(exprs, fmt.Sprintf("\x00%d\x00%s", oi, e0))
		}
	}
	for _, e := range exprs {
		var opts []Option
		if strings.HasPrefix(e, "\x00") {
			parts := strings.SplitN(e[1:], "\x00", 2)
			oi, _ := strconv.Atoi(parts[0])
			opts, e = optSets[oi], parts[1]
		}
		ev, err := CreateEvaluator(e, opts...)
		if err != nil {
			continue
		}
		want, werr := func() (bool, error) {
			if knownTrue[e] && opts == nil {
				return true, nil
			}
			ev2, _ := CreateEvaluator(e, opts...)
			return ev2.Evaluate(d)
		}()
		var wg sync.WaitGroup
		var mu sync.Mutex
		bad := ""
		for g := 0; g < 8; g++ {
			wg.Add(1)
			go func() {
				defer wg.Done()
				for i := 0; i < 50; i++ {
					r, err := ev.Evaluate(d)
					if r != want || (err != nil) != (werr != nil) {
						mu.Lock()
						bad = fmt.Sprint(r, err)
						mu.Unlock()
					}
				}
			}()
		}
		wg.Wait()
		n += 400
		if bad != "" {
			*fails = append(*fails, bxvFailure{Kind: "race", Expr: e, Datum: bxvDescribe(d), Got: bad, Want: fmt.Sprint(want, werr)})
		}
	}
	return n
}

// history independence / purity
func bxvHistory(fails *[]bxvFailure) int {
	n := 0
	exprs := []string{`"/M/a~1b" is empty`, `"/M/a~1b" matches "x"`, `x in "/M/a~1b"`, `any "/M/a~1b" as v { v == 1 }`, `"/M/t~0d" is not empty`, `M["a/b"] is empty`,
		"S matches `a.*`", "X == 1", "any L as x { x == 2 }", "M.zz == 1", "Zz == 1", "M.zz != 1", "M.zz is empty", "M.zz.y != 1", "1 in M.zz", "all M.zz as x { x == 1 }", "X == 1.0", "X in L",
		// a single-name binding over something that is a map in one datum and a list in the next
		"any M as x { x == 1 }", `all M as x { x != "zz" }`, `any L as x { x == "x" }`}
	// same Go type, different shape behind the interfaces: what one datum taught the evaluator must not leak into the next
	data := []interface{}{
		map[string]interface{}{"S": "abc", "X": 1, "L": []int{1, 2}, "M": map[string]int{}},
		map[string]interface{}{"S": 5, "X": "x", "L": 5, "M": 5},
		map[string]interface{}{"M": map[string]interface{}{}},
		map[string]interface{}{},
		map[string]interface{}{"M": map[string]interface{}{"zz": map[string]interface{}{}}, "X": 1.0, "L": []interface{}{1.0, "x"}},
		map[string]interface{}{"M": []int{1}, "X": int8(1), "L": []int8{1}},
		map[string]interface{}{"M": map[string]interface{}{"zz": 1}, "X": uint(1), "L": "1"},
		map[string]interface{}{"M": map[string]interface{}{"a/b": 5, "t~d": 5}},
		map[string]interface{}{"M": map[string]interface{}{"a/b": "x", "t~d": []int{1}}},
		map[string]interface{}{"M": map[string]interface{}{"a/b": []int{1}, "t~d": ""}},
		nil,
	}
	// a producer blocked on an unbuffered channel reachable from the datum must
	// still be blocked, with its value, after any number of evaluations
	for _, e := range []string{"C is empty", "C is not empty", "C == 1", "1 in C", "any C as x { x == 1 }", "B is empty", "B is not empty"} {
		ev, err := CreateEvaluator(e)
		if err != nil {
			continue
		}
		c := make(chan int)
		bc := make(chan int, 2)
		bc <- 7
		go func() { c <- 41 }()
		time.Sleep(2 * time.Millisecond)
		d := struct {
			C chan int
			B chan int
		}{c, bc}
		var outs []string
		for i := 0; i < 3; i++ {
			func() {
				defer func() {
					if r := recover(); r != nil {
						outs = append(outs, "panic")
					}
				}()
				r, err := ev.Evaluate(d)
				outs = append(outs, fmt.Sprint(r, err != nil))
			}()
			n++
		}
		if outs[0] != outs[1] || outs[1] != outs[2] {
			*fails = append(*fails, bxvFailure{Kind: "mismatch", Expr: e, Datum: "struct{C: unbuffered chan with a blocked sender, B: buffered chan holding 7}", Got: "successive calls: " + strings.Join(outs, " / "), Want: "the same outcome every time"})
		}
		select {
		case v := <-c:
			if v != 41 {
				*fails = append(*fails, bxvFailure{Kind: "mismatch", Expr: e, Datum: "chan", Got: fmt.Sprint("received ", v), Want: "41"})
			}
		case <-time.After(200 * time.Millisecond):
			*fails = append(*fails, bxvFailure{Kind: "mismatch", Expr: e, Datum: "struct{C: unbuffered chan with a blocked sender}", Got: "the pending value was consumed by Evaluate", Want: "the datum's channel untouched"})
		}
		if len(bc) != 1 {
			*fails = append(*fails, bxvFailure{Kind: "mismatch", Expr: e, Datum: "struct{B: buffered chan holding 7}", Got: fmt.Sprint("buffered channel now holds ", len(bc)), Want: "1 element"})
		}
	}
	for _, e := range exprs {
		used, err := CreateEvaluator(e)
		if err != nil {
			continue
		}
		if used.Expression() != e {
			*fails = append(*fails, bxvFailure{Kind: "mismatch", Expr: e, Datum: "-", Got: "Expression() = " + used.Expression(), Want: e})
		}
		for round := 0; round < 2; round++ {
			for _, d := range data {
				before := bxvDescribe(d)
				fresh, _ := CreateEvaluator(e)
				r1, e1 := func() (r bool, err error) {
					defer func() {
						if recover() != nil {
							err = errors.New("panic")
						}
					}()
					return used.Evaluate(d)
				}()
				r2, e2 := func() (r bool, err error) {
					defer func() {
						if recover() != nil {
							err = errors.New("panic")
						}
					}()
					return fresh.Evaluate(d)
				}()
				n++
				if r1 != r2 || (e1 != nil) != (e2 != nil) {
					*fails = append(*fails, bxvFailure{Kind: "mismatch", Expr: e, Datum: before, Got: fmt.Sprint("used evaluator: ", r1, e1), Want: fmt.Sprint("fresh evaluator: ", r2, e2)})
				}
				if after := bxvDescribe(d); after != before {
					*fails = append(*fails, bxvFailure{Kind: "mismatch", Expr: e, Datum: before, Got: "datum modified: " + after})
				}
			}
		}
	}
	return n
}

// non-interference of hidden / unexported fields (C08): two data that differ
// only there give the same outcome for every expression, and the same filter selection
type bxvSecretInner struct {
	Vis    string
	secret string
	Skip   int `bexpr:"-" json:"-"`
}
type bxvSecret struct {
	ID     int
	Vis    string
	hidden string
	Skip   string `bexpr:"-" json:"-"`
	JSkip  string `json:"-"`
	Ren    string `bexpr:"alias" json:"jalias"`
	In     bxvSecretInner
	PIn    *bxvSecretInner
	L      []bxvSecretInner
	M      map[string]bxvSecretInner
	Zero   bxvSecretInner
}

func bxvHiddenCases(fails *[]bxvFailure) int {
	mk := func(h string, n int) bxvSecret {
		in := bxvSecretInner{Vis: "v", secret: h, Skip: n}
		return bxvSecret{ID: 1, Vis: "v", hidden: h, Skip: h, JSkip: "j", Ren: "r", In: in, PIn: &in, L: []bxvSecretInner{in}, M: map[string]bxvSecretInner{"k": in},
			Zero: bxvSecretInner{secret: h, Skip: n}}
	}
	a, b := mk("", 0), mk("other", 7)
	sels := []string{"Vis", "hidden", "Skip", "JSkip", "Ren", "alias", "jalias", "In", "In.Vis", "In.secret", "In.Skip", "PIn", "PIn.secret", "L", "L.0", "L.0.secret", "L.0.Skip", "M", "M.k", "M.k.secret", "M.zz", "Zero", "Zero.secret", "Zero.Skip"}
	ops := []string{"%s == v", "%s != v", "%s == other", "%s == 7", "other in %s", "%s is empty", "%s is not empty", "%s matches `o`", "%s not matches `o`",
		"any %s as x { x == v }", "all %s as x { x.secret == other }", "any %s as k, x { x.Skip == 7 }", "not %s == other", "%s is empty or %s == other"}
	optsets := []struct {
		o []Option
		d string
	}{{nil, ""}, {[]Option{WithTagName("json")}, `WithTagName("json")`}, {[]Option{WithUnknownValue("other")}, `WithUnknownValue("other")`}}
	n := 0
	for _, s := range sels {
		for _, op := range ops {
			e := strings.ReplaceAll(op, "%s", s)
			for _, os := range optsets {
				ra, ea, pa, oka := bxvRun(bxvCase{Expr: e, Data: a, Opts: os.o})
				rb, eb, pb, _ := bxvRun(bxvCase{Expr: e, Data: b, Opts: os.o})
				if !oka {
					continue
				}
				n++
				if ra != rb || (ea != nil) != (eb != nil) || (pa != "") != (pb != "") {
					*fails = append(*fails, bxvFailure{Kind: "mismatch", Expr: e, Opts: os.d, Datum: "two data differing only in unexported fields and fields tagged \"-\"",
						Got: fmt.Sprintf("hidden=\"\"/0: (%v, %v) %s", ra, ea, pa), Want: fmt.Sprintf("hidden=\"other\"/7: (%v, %v) %s", rb, eb, pb)})
				}
				// a selector naming a hidden field never resolves to its content
				if (strings.HasSuffix(s, "ecret") || s == "hidden" || (strings.HasSuffix(s, "Skip") && os.d != `WithTagName("json")`)) && os.d != `WithUnknownValue("other")` && (e == s+" == other" || e == s+" == 7") {
					if rb && eb == nil {
						*fails = append(*fails, bxvFailure{Kind: "mismatch", Expr: e, Opts: os.d, Datum: "hidden field holds the compared value", Got: "true", Want: "error"})
					}
				}
			}
		}
	}
	// filters keep the same positions / keys
	for _, e := range []string{"In is empty", "Zero is empty", "Vis == v", "hidden == other", "In.secret == other", "not Zero is not empty"} {
		f, err := CreateFilter(e)
		if err != nil || f == nil {
			continue
		}
		run := func(x interface{}) string {
			defer func() { recover() }()
			r, err := f.Execute(x)
			if err != nil {
				return "error"
			}
			var ids []int
			rv := reflect.ValueOf(r)
			for i := 0; i < rv.Len(); i++ {
				ids = append(ids, int(rv.Index(i).FieldByName("ID").Int()))
			}
			return fmt.Sprint(ids)
		}
		a2, b2 := mk("", 0), mk("other", 7)
		a2.ID, b2.ID = 2, 2
		n++
		if x, y := run([]bxvSecret{a, a2}), run([]bxvSecret{b, b2}); x != y {
			*fails = append(*fails, bxvFailure{Kind: "filter", Expr: e, Datum: "two slices differing only in hidden fields", Got: x, Want: y})
		}
	}
	// elements whose visible fields are all zero: whether they are kept must not depend on hidden content
	type zeroVis struct {
		V      string
		L      []string
		hidden string
		Skip   int `bexpr:"-" json:"-"`
	}
	for _, e := range []string{"V is empty", "V != web", `V == ""`, "L is empty", "blue not in L", "V is not empty"} {
		f, err := CreateFilter(e)
		if err != nil || f == nil {
			continue
		}
		count := func(x interface{}) string {
			defer func() { recover() }()
			r, err := f.Execute(x)
			if err != nil {
				return "error"
			}
			return fmt.Sprint(reflect.ValueOf(r).Len())
		}
		n++
		plainS, hidS := []zeroVis{{}, {}, {V: "web"}}, []zeroVis{{hidden: "x"}, {Skip: 1}, {V: "web", hidden: "y"}}
		if x, y := count(plainS), count(hidS); x != y {
			*fails = append(*fails, bxvFailure{Kind: "filter", Expr: e, Datum: "two slices of structs with all-zero visible fields, differing only in hidden fields", Got: "kept " + x, Want: "kept " + y})
		}
		plainA, hidA := [2]zeroVis{}, [2]zeroVis{{hidden: "x"}, {Skip: 1}}
		if x, y := count(plainA), count(hidA); x != y {
			*fails = append(*fails, bxvFailure{Kind: "filter", Expr: e, Datum: "two arrays of structs with all-zero visible fields, differing only in hidden fields", Got: "kept " + x, Want: "kept " + y})
		}
		plainM, hidM := map[string]zeroVis{"a": {}, "b": {}}, map[string]zeroVis{"a": {hidden: "x"}, "b": {Skip: 1}}
		if x, y := count(plainM), count(hidM); x != y {
			*fails = append(*fails, bxvFailure{Kind: "filter", Expr: e, Datum: "two maps of structs with all-zero visible fields, differing only in hidden fields", Got: "kept " + x, Want: "kept " + y})
		}
	}
	return n
}

// C10: creating an evaluator is total on arbitrary bytes; evaluator xor error;
// Parse accepts exactly what CreateEvaluator accepts; the result is usable.
var bxvTokens = []string{"a", "b.c", "not", "and", "or", "in", "is", "empty", "contains", "matches", "any", "all", "as", "_", ",", "{", "}", "(", ")", "[", "]", "==", "!=",
	"1", "-1", "1.5", "01", "1.", "\"x\"", "`y`", "\"/a/b\"", "\"\"", "\"\\q\"", "\"x", "`y", "x[\"k\"]", "x[`k`]", "x[", " ", "\t", "\n", "\xff", "\x00", "é"}

func bxvParseOne(in string, fails *[]bxvFailure) {
	var pval interface{}
	var perr error
	func() {
		defer func() {
			if r := recover(); r != nil {
				*fails = append(*fails, bxvFailure{Kind: "panic", Expr: strconv.Quote(in), Datum: "-", Got: "grammar.Parse panicked: " + fmt.Sprint(r)})
			}
		}()
		pval, perr = grammar.Parse("", []byte(in))
	}()
	var ev *Evaluator
	var cerr error
	func() {
		defer func() {
			if r := recover(); r != nil {
				*fails = append(*fails, bxvFailure{Kind: "panic", Expr: strconv.Quote(in), Datum: "-", Got: "CreateEvaluator panicked: " + fmt.Sprint(r)})
			}
		}()
		ev, cerr = CreateEvaluator(in)
	}()
	if (ev != nil) == (cerr != nil) {
		*fails = append(*fails, bxvFailure{Kind: "mismatch", Expr: strconv.Quote(in), Datum: "-", Got: fmt.Sprintf("CreateEvaluator returned (%v, %v)", ev != nil, cerr), Want: "evaluator xor error"})
	}
	if (perr == nil) != (cerr == nil) {
		*fails = append(*fails, bxvFailure{Kind: "mismatch", Expr: strconv.Quote(in), Datum: "-", Got: fmt.Sprintf("grammar.Parse err=%v, CreateEvaluator err=%v", perr, cerr), Want: "both accept or both reject"})
	}
	if perr == nil {
		if _, ok := pval.(grammar.Expression); !ok {
			*fails = append(*fails, bxvFailure{Kind: "mismatch", Expr: strconv.Quote(in), Datum: "-", Got: fmt.Sprintf("Parse returned %T without error", pval), Want: "an Expression"})
		}
	}
	func() {
		defer func() {
			if r := recover(); r != nil {
				*fails = append(*fails, bxvFailure{Kind: "panic", Expr: strconv.Quote(in), Datum: "-", Got: "CreateFilter panicked: " + fmt.Sprint(r)})
			}
		}()
		f, ferr := CreateFilter(in)
		if in == "" {
			if f != nil || ferr != nil {
				*fails = append(*fails, bxvFailure{Kind: "mismatch", Expr: `""`, Datum: "-", Got: fmt.Sprint(f, ferr), Want: "nil filter, nil error"})
			}
		} else if (f != nil) == (ferr != nil) || (ferr == nil) != (cerr == nil) {
			*fails = append(*fails, bxvFailure{Kind: "mismatch", Expr: strconv.Quote(in), Datum: "-", Got: fmt.Sprintf("CreateFilter returned (%v, %v), CreateEvaluator err=%v", f != nil, ferr, cerr), Want: "filter xor error, same verdict as CreateEvaluator"})
		}
	}()
	if ev != nil {
		func() {
			defer func() {
				if r := recover(); r != nil {
					*fails = append(*fails, bxvFailure{Kind: "panic", Expr: strconv.Quote(in), Datum: "nil / map", Got: "Evaluate or ExpressionDump panicked on an accepted expression: " + fmt.Sprint(r)})
				}
			}()
			ev.Evaluate(nil)
			ev.Evaluate(map[string]interface{}{"a": 1, "b": map[string]interface{}{"c": "x"}, "x": map[string]int{"k": 1}})
			if e, ok := pval.(grammar.Expression); ok {
				var sb strings.Builder
				e.ExpressionDump(&sb, "  ", 0)
			}
		}()
	}
}

func bxvParseCases(fails *[]bxvFailure) int {
	n := 0
	// all byte strings of length <= 2
	bxvParseOne("", fails)
	n++
	for a := 0; a < 256; a++ {
		bxvParseOne(string([]byte{byte(a)}), fails)
		n++
		for b := 0; b < 256; b++ {
			bxvParseOne(string([]byte{byte(a), byte(b)}), fails)
			n++
		}
	}
	// length 3 over the bytes the grammar mentions + invalid UTF-8 + NUL
	alpha := []byte("a1 .\"`/()[]{}=!,-_~|:\\\x00\xff\xc3\x28\n\t")
	for _, a := range alpha {
		for _, b := range alpha {
			for _, c := range alpha {
				bxvParseOne(string([]byte{a, b, c}), fails)
				n++
			}
		}
	}
	// token sequences of length <= 3 over the full token alphabet, single-space separated and unseparated
	for _, a := range bxvTokens {
		for _, b := range bxvTokens {
			bxvParseOne(a+" "+b, fails)
			bxvParseOne(a+b, fails)
			n += 2
			for _, c := range bxvTokens {
				bxvParseOne(a+" "+b+" "+c, fails)
				n++
			}
		}
	}
	// valid statements padded with bytes and runes that are white space to unicode/strings but not to the grammar
	for _, w := range []string{"\v", "\f", "\x00", "\u0085", "\u00a0", "\u1680", "\u2003", "\u2028", "\u3000", "\ufeff", "\r", " ", "\r\n\t ", "\x85", "\xa0"} {
		for _, st := range []string{"a == 1", "a is empty", "not a in b", "any a as x { x == 1 }"} {
			for _, in := range []string{w + st, st + w, w + st + w, strings.Replace(st, " ", w, 1), strings.Replace(st, " ", " "+w+" ", 1)} {
				bxvParseOne(in, fails)
				n++
			}
		}
	}
	// the expression budget: every budget gives evaluator xor error, never a
	// panic, and grammar.Parse under the same budget agrees
	for _, in := range []string{"a == 1", "a == 1 and b == 2", "((a == 1))", "any a as x { x == 1 }", "a ==", "\xff"} {
		for _, budget := range []uint64{1, 2, 5, 20, 56, 57, 200, 517, 1000000} {
			n++
			func() {
				defer func() {
					if r := recover(); r != nil {
						*fails = append(*fails, bxvFailure{Kind: "panic", Expr: strconv.Quote(in), Datum: "-", Opts: fmt.Sprintf("WithMaxExpressions(%d)", budget), Got: "panicked: " + fmt.Sprint(r)})
					}
				}()
				pval, perr := grammar.Parse("", []byte(in), grammar.MaxExpressions(budget))
				if perr == nil {
					if _, ok := pval.(grammar.Expression); !ok {
						*fails = append(*fails, bxvFailure{Kind: "mismatch", Expr: strconv.Quote(in), Datum: "-", Opts: fmt.Sprintf("MaxExpressions(%d)", budget), Got: fmt.Sprintf("Parse returned %T with a nil error", pval), Want: "an Expression or an error"})
					}
				}
				ev, cerr := CreateEvaluator(in, WithMaxExpressions(budget))
				if (ev != nil) == (cerr != nil) || (perr == nil) != (cerr == nil) {
					*fails = append(*fails, bxvFailure{Kind: "mismatch", Expr: strconv.Quote(in), Datum: "-", Opts: fmt.Sprintf("WithMaxExpressions(%d)", budget), Got: fmt.Sprintf("CreateEvaluator (%v, %v), Parse err=%v", ev != nil, cerr, perr), Want: "evaluator xor error, same verdict as Parse"})
				}
				if ev != nil {
					ev.Evaluate(map[string]interface{}{"a": 1, "b": 2})
				}
			}()
		}
	}
	// statement-shaped inputs with a bad piece
	for _, s := range []string{`foo == "\\q"`, `foo == "a\\"`, `foo["\\x"] == 1`, "foo == \"\xff\"", "foo == `\xc3\x28`", `"/a/~2" == 1`, `x == "/~"`, "(((((a == 1)))))", "((a == 1)", "a == 1))",
		"any a as x, x { x == 1 }", "any a as { x == 1 }", "a == 1 and", "not", "a in", "1 in", `a matches "["`, "a is", "a is not", "all a as x {}", "a == 01", "a == 1.", "a == -", `a["b" == 1`} {
		bxvParseOne(s, fails)
		n++
	}
	return n
}

// C19: reference rendering of a syntax tree (from the property statement)
func bxvRefRender(e grammar.Expression, ind string, k int) string {
	rep := strings.Repeat(ind, k)
	sel := func(s grammar.Selector) string {
		if len(s.Path) == 0 {
			return ""
		}
		switch s.Type {
		case grammar.SelectorTypeBexpr:
			return strings.Join(s.Path, ".")
		case grammar.SelectorTypeJsonPointer:
			return strings.Join(s.Path, "/")
		}
		return ""
	}
	switch n := e.(type) {
	case *grammar.UnaryExpression:
		name := "UNKNOWN"
		if n.Operator == grammar.UnaryOpNot {
			name = "Not"
		}
		return rep + name + " {\n" + bxvRefRender(n.Operand, ind, k+1) + rep + "}\n"
	case *grammar.BinaryExpression:
		name := map[grammar.BinaryOperator]string{grammar.BinaryOpAnd: "And", grammar.BinaryOpOr: "Or"}[n.Operator]
		if name == "" {
			name = "UNKNOWN"
		}
		return rep + name + " {\n" + bxvRefRender(n.Left, ind, k+1) + bxvRefRender(n.Right, ind, k+1) + rep + "}\n"
	case *grammar.MatchExpression:
		names := []string{"Equal", "Not Equal", "In", "Not In", "Is Empty", "Is Not Empty", "Matches", "Not Matches"}
		name := "UNKNOWN"
		if int(n.Operator) >= 0 && int(n.Operator) < len(names) {
			name = names[n.Operator]
		}
		out := rep + name + " {\n" + strings.Repeat(ind, k+1) + "Selector: " + sel(n.Selector) + "\n"
		if n.Operator <= grammar.MatchNotIn {
			out += strings.Repeat(ind, k+1) + "Value: " + strconv.Quote(n.Value.Raw) + "\n"
		}
		return out + rep + "}\n"
	case *grammar.CollectionExpression:
		nb := n.NameBinding
		var b string
		switch nb.Mode {
		case grammar.CollectionBindDefault:
			b = "Default (" + nb.Default + ")"
		case grammar.CollectionBindIndex:
			b = "Index (" + nb.Index + ")"
		case grammar.CollectionBindValue:
			b = "Value (" + nb.Value + ")"
		case grammar.CollectionBindIndexAndValue:
			b = "Index & Value (" + nb.Index + ", " + nb.Value + ")"
		default:
			b = "UNKNOWN (" + nb.Default + ", " + nb.Index + ", " + nb.Value + ")"
		}
		return rep + string(n.Op) + " " + b + " on " + sel(n.Selector) + " {\n" + bxvRefRender(n.Inner, ind, k+1) + rep + "}\n"
	}
	return ""
}

func bxvDumpCases(fails *[]bxvFailure) int {
	exprs := []string{"a == 1", "a.b.c != x", `"/a/b" in c`, "x not in y", "a is empty", "a is not empty", "a matches `x.*`", "a not matches `y`", "not a == 1",
		"a == 1 and b == 2", "a == 1 or b == 2 and not c == 3", "any a.b as x { x == 1 }", "all a as i, v { v == 1 and i != 2 }", "any a as _, v { v is empty }", "all a as i, _ { i == 0 }",
		"a == `say \"hi\"`", "a == `C:\\dir`", "a == `line1\nline2`", "a == \"tab\\there\"", "a == `}\nOr {`", "a == \"\"", "a contains `é`", `"/x/~0y" == 1`, `"/a/../b" == 1`, `"/a/./b" == 1`, `"/.." == 1`, `any "/../x" as k, v { v == 1 }`, `a["."].b == 1`, `a[".."] == 1`, `any quota["100%"] as q { q == 1 }`, `all labels["cpu%d"] as k, v { v == 1 }`, `a["%s"] == "%v"`, `a["%!"] matches "%"`, "x%y == 1", "a.b == `/a/../b`",
		"any a as x { any x.b as y { y == `q\"` or not y matches `z` } }"}
	n := 0
	for _, in := range exprs {
		ast, err := grammar.Parse("", []byte(in))
		if err != nil {
			continue
		}
		for _, ind := range []string{"", "  ", "\t"} {
			for _, lvl := range []int{0, 1, 3} {
				n++
				var sb strings.Builder
				func() {
					defer func() {
						if r := recover(); r != nil {
							*fails = append(*fails, bxvFailure{Kind: "panic", Expr: in, Datum: "-", Got: "ExpressionDump panicked: " + fmt.Sprint(r)})
						}
					}()
					ast.(grammar.Expression).ExpressionDump(&sb, ind, lvl)
				}()
				if want := bxvRefRender(ast.(grammar.Expression), ind, lvl); sb.String() != want {
					*fails = append(*fails, bxvFailure{Kind: "mismatch", Expr: in, Datum: fmt.Sprintf("indent %q level %d", ind, lvl), Got: sb.String(), Want: want})
				}
			}
		}
	}
	return n
}

// set by the verif-tagged companion file
var bxvBudgetHook func(*[]bxvFailure) int

func TestBxvBattery(t *testing.T) {
	prop := os.Getenv("BXV_PROP")
	out := os.Getenv("BXV_OUT")
	var fails []bxvFailure
	n := 0
	stats := map[string]int{}
	var samples []string
	run := func(cs []bxvCase, withRef bool) {
		for _, c := range cs {
			n++
			bxvCheck(c, withRef, &fails)
		}
	}
	switch prop {
	case "C09":
		run(bxvOpCases(), false)
		run(bxvBoolCases(), false)
		run(bxvPathCases(), false)
		run(bxvCollCases(), false)
	case "C02":
		run(bxvOpCases(), true)
	case "C04":
		run(bxvOpCases(), true)
		run(bxvPathCases(), true) // absent keys: the disposition of a negated operator is the complement too
	case "C03":
		run(bxvBoolCases(), true)
	case "C08":
		n += bxvHiddenCases(&fails)
		run(bxvPathCases(), true)
	case "C05", "C18":
		run(bxvPathCases(), true)
	case "C06":
		run(bxvCollCases(), true)
		run(bxvPathCases(), true)
	case "C14":
		n += bxvDeterminism(&fails)
	case "C17":
		n += bxvFilterCases(&fails)
		n += bxvDeterminism(&fails)
	case "C10":
		n += bxvParseCases(&fails)
	case "C19":
		n += bxvDumpCases(&fails)
	case "C15":
		n += bxvLangCases(&fails, stats, &samples)
	case "C16":
		n += bxvRoundTripCases(&fails, stats, &samples)
	case "C07":
		n += bxvSpellingCases(&fails, stats, &samples)
		run(bxvPathCases(), true)
	case "C11":
		if bxvBudgetHook != nil {
			n += bxvBudgetHook(&fails)
		}
	case "C12":
		n += bxvConcurrent(&fails)
	case "C13":
		n += bxvHistory(&fails)
		n += bxvFilterCases(&fails)
	default: // C01 and anything else: everything with the reference
		run(bxvOpCases(), true)
		run(bxvBoolCases(), true)
		run(bxvPathCases(), true)
		run(bxvCollCases(), true)
	}
	if len(fails) > 40 {
		fails = fails[:40]
	}
	res := map[string]interface{}{"property": prop, "cases": n, "failures": fails, "stats": stats, "samples": samples}
	b, _ := json.MarshalIndent(res, "", " ")
	if out != "" {
		_ = os.WriteFile(out, b, 0o644)
	}
	if len(fails) > 0 {
		t.Errorf("%d failing inputs (of %d cases); first: %+v", len(fails), n, fails[0])
	}
}
