//go:build verif

// Injected by bxv (go test -overlay -tags verif): bounded relational
// cross-check of the WithMaxExpressions budget (C11) through the verif-only
// accessor grammar.ParseCounted. Never counted as proved.

package bexpr

import (
	"fmt"
	"reflect"
	"strconv"
	"strings"
	"time"

	"github.com/hashicorp/go-bexpr/grammar"
)

func init() { bxvBudgetHook = bxvBudgetCases }

func bxvBudgetCases(fails *[]bxvFailure) int {
	inputs := []string{"a == 1", "a != b and c in d", "not a == 1 or b is empty", "any a as x { x == 1 }", "all a.b as k, v { v matches `x` and k != y }",
		"a == ", "a == 1 and", "((a == 1)", "a == 1))", `a == "\q"`, "", "a", `"/a/b" == 1`, `a["b"].c == 1`, "a.b.0 == 1 and (b == 2 or (c == 3 and not d == 4))"}
	for d := 1; d <= 6; d++ {
		inputs = append(inputs, strings.Repeat("(", d)+"a == 1"+strings.Repeat(")", d))
		inputs = append(inputs, strings.Repeat("(", d)+"a == 1"+strings.Repeat(")", d-1))
	}
	n := 0
	isMax := func(err error) bool { return err != nil && strings.Contains(err.Error(), "max number of expresssions parsed") }
	for _, in := range inputs {
		v0, e0, N := grammar.ParseCounted([]byte(in))
		budgets := []uint64{1, 2, N / 2, N - 1, N, N + 1, 2 * N, 1 << 22}
		for _, b := range budgets {
			if b == 0 {
				continue
			}
			n++
			v, e, steps := grammar.ParseCounted([]byte(in), grammar.MaxExpressions(b))
			ev, cerr := CreateEvaluator(in, WithMaxExpressions(b))
			desc := fmt.Sprintf("budget %d, unlimited parse takes %d steps", b, N)
			if b >= N {
				if (e == nil) != (e0 == nil) || !reflect.DeepEqual(v, v0) || steps != N {
					*fails = append(*fails, bxvFailure{Kind: "mismatch", Expr: strconv.Quote(in), Datum: desc, Got: fmt.Sprintf("err=%v steps=%d sameTree=%v", e, steps, reflect.DeepEqual(v, v0)), Want: fmt.Sprintf("the unlimited result (err=%v, %d steps)", e0, N)})
				}
				if (cerr == nil) != (e0 == nil) || (ev != nil) == (cerr != nil) {
					*fails = append(*fails, bxvFailure{Kind: "mismatch", Expr: strconv.Quote(in), Datum: desc, Got: fmt.Sprintf("CreateEvaluator err=%v", cerr), Want: fmt.Sprintf("as unlimited (err=%v)", e0)})
				}
			} else {
				if !isMax(e) || v != nil {
					*fails = append(*fails, bxvFailure{Kind: "mismatch", Expr: strconv.Quote(in), Datum: desc, Got: fmt.Sprintf("val=%v err=%v", v, e), Want: "nil, max-expressions error"})
				}
				if steps > b+1 {
					*fails = append(*fails, bxvFailure{Kind: "mismatch", Expr: strconv.Quote(in), Datum: desc, Got: fmt.Sprintf("%d steps executed", steps), Want: fmt.Sprintf("at most %d", b+1)})
				}
				if !isMax(cerr) || ev != nil {
					*fails = append(*fails, bxvFailure{Kind: "mismatch", Expr: strconv.Quote(in), Datum: desc, Got: fmt.Sprintf("CreateEvaluator err=%v", cerr), Want: "max-expressions error"})
				}
			}
		}
		// budget 0 means unlimited
		ev, cerr := CreateEvaluator(in, WithMaxExpressions(0))
		n++
		if (cerr == nil) != (e0 == nil) || (ev != nil) == (cerr != nil) {
			*fails = append(*fails, bxvFailure{Kind: "mismatch", Expr: strconv.Quote(in), Datum: "budget 0", Got: fmt.Sprintf("CreateEvaluator err=%v", cerr), Want: fmt.Sprintf("as unlimited (err=%v)", e0)})
		}
	}
	// exponential input is rejected within the budget
	deep := strings.Repeat("(", 40) + "a == 1" + strings.Repeat(")", 40)
	type r struct {
		e     error
		steps uint64
	}
	done := make(chan r, 1)
	go func() {
		_, e, steps := grammar.ParseCounted([]byte(deep), grammar.MaxExpressions(100000))
		done <- r{e, steps}
	}()
	n++
	select {
	case x := <-done:
		if !isMax(x.e) || x.steps > 100001 {
			*fails = append(*fails, bxvFailure{Kind: "mismatch", Expr: "40 nested parentheses", Datum: "budget 100000", Got: fmt.Sprintf("err=%v steps=%d", x.e, x.steps), Want: "max-expressions error within 100001 steps"})
		}
	case <-time.After(20 * time.Second):
		*fails = append(*fails, bxvFailure{Kind: "mismatch", Expr: "40 nested parentheses", Datum: "budget 100000", Got: "the parse was still running after 20s: the budget does not bound the parser's work", Want: "max-expressions error within 100001 steps"})
	}
	return n
}
