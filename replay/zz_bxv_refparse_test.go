// Injected by bxv through `go test -overlay`. An independent, hand-written
// recognizer / AST builder for the bexpr language read as an ordered-choice
// PEG with its error productions (C15). It does NOT read grammar.peg or
// grammar.go: if it did, a consistent edit of both would move the oracle
// along with the code. One point of the language definition is fixed here:
// errors recorded on a path the parser later abandons still reject the input
// (pigeon never rolls recorded errors back), so the reference explores
// alternatives in the same order and accumulates errors the same way.

package bexpr

import (
	"regexp"
	"errors"
	"fmt"
	"os"
	"sync"
	"reflect"
	"strconv"
	"strings"
	"unicode"
	"unicode/utf8"

	"github.com/hashicorp/go-bexpr/grammar"
	"github.com/mitchellh/pointerstructure"
)

type rp struct {
	in   []byte
	errs []string
	seen map[int]bool // offsets at which a rune has been decoded
}

type rpFn func(p *rp, pos int) (val interface{}, end int, ok bool)

func (p *rp) decode(off int) (rune, int) {
	if off >= len(p.in) {
		return utf8.RuneError, 0
	}
	r, w := utf8.DecodeRune(p.in[off:])
	if !p.seen[off] {
		p.seen[off] = true
		if r == utf8.RuneError && w == 1 {
			p.errs = append(p.errs, "invalid encoding")
		}
	}
	return r, w
}

func (p *rp) fail(msg string) { p.errs = append(p.errs, msg) }

// ---- combinators ---------------------------------------------------------------

func rLit(s string) rpFn {
	return func(p *rp, pos int) (interface{}, int, bool) {
		cur := pos
		for _, want := range s {
			r, w := p.decode(cur)
			if w == 0 || r != want {
				return nil, pos, false
			}
			cur += w
			p.decode(cur) // the parser reads the next rune after consuming one
		}
		return p.in[pos:cur], cur, true
	}
}

func rClass(pred func(rune) bool) rpFn {
	return func(p *rp, pos int) (interface{}, int, bool) {
		r, w := p.decode(pos)
		if w == 0 || !pred(r) {
			return nil, pos, false
		}
		p.decode(pos + w)
		return p.in[pos : pos+w], pos + w, true
	}
}

func rAny() rpFn { return rClass(func(rune) bool { return true }) }

func rSeq(fs ...rpFn) rpFn {
	return func(p *rp, pos int) (interface{}, int, bool) {
		vals := make([]interface{}, 0, len(fs))
		cur := pos
		for _, f := range fs {
			v, e, ok := f(p, cur)
			if !ok {
				return nil, pos, false
			}
			vals = append(vals, v)
			cur = e
		}
		return vals, cur, true
	}
}

func rChoice(fs ...rpFn) rpFn {
	return func(p *rp, pos int) (interface{}, int, bool) {
		for _, f := range fs {
			if v, e, ok := f(p, pos); ok {
				return v, e, true
			}
		}
		return nil, pos, false
	}
}

func rStar(f rpFn) rpFn {
	return func(p *rp, pos int) (interface{}, int, bool) {
		var vals []interface{}
		cur := pos
		for {
			v, e, ok := f(p, cur)
			if !ok {
				return vals, cur, true
			}
			vals = append(vals, v)
			cur = e
		}
	}
}

func rPlus(f rpFn) rpFn {
	return func(p *rp, pos int) (interface{}, int, bool) {
		v, e, ok := rStar(f)(p, pos)
		if len(v.([]interface{})) == 0 {
			return nil, pos, false
		}
		return v, e, ok
	}
}

func rOpt(f rpFn) rpFn {
	return func(p *rp, pos int) (interface{}, int, bool) {
		v, e, ok := f(p, pos)
		if !ok {
			return nil, pos, true
		}
		return v, e, true
	}
}

func rNot(f rpFn) rpFn {
	return func(p *rp, pos int) (interface{}, int, bool) {
		_, _, ok := f(p, pos)
		return nil, pos, !ok
	}
}

func rAnd(f rpFn) rpFn {
	return func(p *rp, pos int) (interface{}, int, bool) {
		_, _, ok := f(p, pos)
		return nil, pos, ok
	}
}

// an error production: records the error and fails
func rErr(msg string) rpFn {
	return func(p *rp, pos int) (interface{}, int, bool) {
		p.fail(msg)
		return nil, pos, false
	}
}

// action: f matched => build(values, text); an action error is recorded but the match stands
func rAct(f rpFn, build func(v interface{}, text []byte) (interface{}, error)) rpFn {
	return func(p *rp, pos int) (interface{}, int, bool) {
		v, e, ok := f(p, pos)
		if !ok {
			return nil, pos, false
		}
		out, err := build(v, p.in[pos:e])
		if err != nil {
			p.fail(err.Error())
		}
		return out, e, true
	}
}

func rRef(f *rpFn) rpFn {
	return func(p *rp, pos int) (interface{}, int, bool) { return (*f)(p, pos) }
}

// ---- the language ------------------------------------------------------------------

var rpInput rpFn

func init() {
	var orExpr, andExpr, notExpr, collExpr, parenExpr, selector, value, strLit rpFn
	ws := rPlus(rClass(func(r rune) bool { return r == ' ' || r == '\t' || r == '\r' || r == '\n' }))
	ows := rOpt(ws)
	eof := rNot(rAny())
	at := func(v interface{}, i int) interface{} { return v.([]interface{})[i] }
	ident := rAct(rSeq(rClass(func(r rune) bool { return r >= 'a' && r <= 'z' || r >= 'A' && r <= 'Z' }),
		rStar(rClass(func(r rune) bool {
			return r >= 'a' && r <= 'z' || r >= 'A' && r <= 'Z' || r >= '0' && r <= '9' || r == '_' || r == '/'
		}))), func(v interface{}, t []byte) (interface{}, error) { return string(t), nil })

	rawChar := rSeq(rNot(rLit("`")), rAny())
	// a backslash escapes the next character (so that \" does not end the literal)
	dqChar := rChoice(rSeq(rLit("\\"), rAny()), rSeq(rNot(rLit(`"`)), rAny()))
	strLit = rChoice(
		rAct(rChoice(rSeq(rLit("`"), rStar(rawChar), rLit("`")), rSeq(rLit(`"`), rStar(dqChar), rLit(`"`))),
			func(v interface{}, t []byte) (interface{}, error) { return strconv.Unquote(string(t)) }),
		rSeq(rChoice(rSeq(rLit("`"), rStar(rawChar)), rSeq(rLit(`"`), rStar(dqChar))), eof, rErr("Unterminated string literal")),
	)
	indexExpr := rChoice(
		rAct(rSeq(rLit("["), ows, rRef(&strLit), ows, rLit("]")), func(v interface{}, t []byte) (interface{}, error) { return at(v, 2), nil }),
		rSeq(rLit("["), ows, rNot(rRef(&strLit)), rErr("Invalid index")),
		rSeq(rLit("["), ows, rRef(&strLit), ows, rNot(rLit("]")), rErr("Unclosed index expression")),
	)
	digit := rClass(func(r rune) bool { return r >= '0' && r <= '9' })
	selOrIdx := rChoice(
		rAct(rSeq(rLit("."), ident), func(v interface{}, t []byte) (interface{}, error) { return at(v, 1), nil }),
		indexExpr,
		rAct(rSeq(rLit("."), rPlus(digit)), func(v interface{}, t []byte) (interface{}, error) { return string(t)[1:], nil }),
	)
	ptrSeg := rAct(rSeq(rLit("/"), rPlus(rClass(func(r rune) bool {
		return unicode.IsLetter(r) || unicode.IsNumber(r) || strings.ContainsRune("-_.~:|", r)
	}))), func(v interface{}, t []byte) (interface{}, error) { return string(t)[1:], nil })
	selector = rChoice(
		rAct(rSeq(ident, rStar(selOrIdx)), func(v interface{}, t []byte) (interface{}, error) {
			sel := grammar.Selector{Type: grammar.SelectorTypeBexpr, Path: []string{at(v, 0).(string)}}
			for _, x := range at(v, 1).([]interface{}) {
				sel.Path = append(sel.Path, x.(string))
			}
			return sel, nil
		}),
		rAct(rSeq(rLit(`"`), rStar(ptrSeg), rLit(`"`)), func(v interface{}, t []byte) (interface{}, error) {
			var segs []string
			for _, x := range at(v, 1).([]interface{}) {
				segs = append(segs, x.(string))
			}
			// RFC 6901: split at '/', then ~1 -> '/', then ~0 -> '~'; a '~' not followed by 0 or 1 is left alone by the library
			ptr, err := pointerstructure.Parse("/" + strings.Join(segs, "/"))
			if err != nil {
				return nil, fmt.Errorf("error validating json pointer: %w", err)
			}
			return grammar.Selector{Type: grammar.SelectorTypeJsonPointer, Path: ptr.Parts}, nil
		}),
	)
	intOrFloat := rSeq(rChoice(rLit("0"), rSeq(rClass(func(r rune) bool { return r >= '1' && r <= '9' }), rStar(digit))), rOpt(rSeq(rLit("."), rPlus(digit))))
	afterNum := rAnd(rChoice(ws, eof, rLit(")"), rLit("}"))) // "}" since the fix of D14: a number may end a quantifier body
	number := rChoice(
		rAct(rSeq(rOpt(rLit("-")), intOrFloat, rAnd(afterNum)), func(v interface{}, t []byte) (interface{}, error) { return string(t), nil }),
		rSeq(rOpt(rLit("-")), intOrFloat, rNot(afterNum), rErr("Invalid number literal")),
	)
	value = rChoice(
		rAct(selector, func(v interface{}, t []byte) (interface{}, error) {
			sel := v.(grammar.Selector)
			if sel.Type == grammar.SelectorTypeJsonPointer {
				// a quoted literal denotes exactly the string it spells
				return &grammar.MatchValue{Raw: string(t[1 : len(t)-1])}, nil
			}
			return &grammar.MatchValue{Raw: strings.Join(sel.Path, ".")}, nil
		}),
		rAct(number, func(v interface{}, t []byte) (interface{}, error) { return &grammar.MatchValue{Raw: v.(string)}, nil }),
		rAct(rRef(&strLit), func(v interface{}, t []byte) (interface{}, error) { return &grammar.MatchValue{Raw: v.(string)}, nil }),
	)
	opk := func(f rpFn, k grammar.MatchOperator) rpFn {
		return rAct(f, func(interface{}, []byte) (interface{}, error) { return k, nil })
	}
	mEq := opk(rSeq(ows, rLit("=="), ows), grammar.MatchEqual)
	mNe := opk(rSeq(ows, rLit("!="), ows), grammar.MatchNotEqual)
	mIsEmpty := opk(rSeq(ws, rLit("is"), ws, rLit("empty")), grammar.MatchIsEmpty)
	mIsNotEmpty := opk(rSeq(ws, rLit("is"), ws, rLit("not"), ws, rLit("empty")), grammar.MatchIsNotEmpty)
	mIn := opk(rSeq(ws, rLit("in"), ws), grammar.MatchIn)
	mNotIn := opk(rSeq(ws, rLit("not"), ws, rLit("in"), ws), grammar.MatchNotIn)
	mContains := opk(rSeq(ws, rLit("contains"), ws), grammar.MatchIn)
	mNotContains := opk(rSeq(ws, rLit("not"), ws, rLit("contains"), ws), grammar.MatchNotIn)
	mMatches := opk(rSeq(ws, rLit("matches"), ws), grammar.MatchMatches)
	mNotMatches := opk(rSeq(ws, rLit("not"), ws, rLit("matches"), ws), grammar.MatchNotMatches)
	matchExpr := rChoice(
		rAct(rSeq(rRef(&selector), rChoice(mEq, mNe, mContains, mNotContains, mMatches, mNotMatches), rRef(&value)), func(v interface{}, t []byte) (interface{}, error) {
			return &grammar.MatchExpression{Selector: at(v, 0).(grammar.Selector), Operator: at(v, 1).(grammar.MatchOperator), Value: at(v, 2).(*grammar.MatchValue)}, nil
		}),
		rAct(rSeq(rRef(&selector), rChoice(mIsEmpty, mIsNotEmpty)), func(v interface{}, t []byte) (interface{}, error) {
			return &grammar.MatchExpression{Selector: at(v, 0).(grammar.Selector), Operator: at(v, 1).(grammar.MatchOperator)}, nil
		}),
		rChoice(
			rAct(rSeq(rRef(&value), rChoice(mIn, mNotIn), rRef(&selector)), func(v interface{}, t []byte) (interface{}, error) {
				return &grammar.MatchExpression{Selector: at(v, 2).(grammar.Selector), Operator: at(v, 1).(grammar.MatchOperator), Value: at(v, 0).(*grammar.MatchValue)}, nil
			}),
			rSeq(rRef(&value), rChoice(mIn, mNotIn), rNot(rRef(&selector)), rErr("Invalid selector")),
		),
	)
	parenExpr = rChoice(
		rAct(rSeq(rLit("("), ows, rRef(&orExpr), ows, rLit(")")), func(v interface{}, t []byte) (interface{}, error) { return at(v, 2), nil }),
		matchExpr,
		rSeq(rLit("("), ows, rRef(&orExpr), ows, rNot(rLit(")")), rErr("Unmatched parentheses")),
	)
	notExpr = rChoice(
		rAct(rSeq(rLit("not"), ws, rRef(&notExpr)), func(v interface{}, t []byte) (interface{}, error) {
			inner := at(v, 2)
			if u, ok := inner.(*grammar.UnaryExpression); ok && u.Operator == grammar.UnaryOpNot {
				return u.Operand, nil // not not e is e
			}
			return &grammar.UnaryExpression{Operator: grammar.UnaryOpNot, Operand: inner.(grammar.Expression)}, nil
		}),
		rRef(&parenExpr),
	)
	andExpr = rChoice(
		rAct(rSeq(rRef(&notExpr), ws, rLit("and"), ws, rRef(&andExpr)), func(v interface{}, t []byte) (interface{}, error) {
			return &grammar.BinaryExpression{Operator: grammar.BinaryOpAnd, Left: at(v, 0).(grammar.Expression), Right: at(v, 4).(grammar.Expression)}, nil
		}),
		rRef(&notExpr),
	)
	collIdents := rChoice(
		rAct(rSeq(ident, ows, rLit(","), ows, ident), func(v interface{}, t []byte) (interface{}, error) {
			return grammar.CollectionNameBinding{Mode: grammar.CollectionBindIndexAndValue, Index: at(v, 0).(string), Value: at(v, 4).(string)}, nil
		}),
		rAct(rSeq(ident, ows, rLit(","), ows, rLit("_")), func(v interface{}, t []byte) (interface{}, error) {
			return grammar.CollectionNameBinding{Mode: grammar.CollectionBindIndex, Index: at(v, 0).(string)}, nil
		}),
		rAct(rSeq(rLit("_"), ows, rLit(","), ows, ident), func(v interface{}, t []byte) (interface{}, error) {
			return grammar.CollectionNameBinding{Mode: grammar.CollectionBindValue, Value: at(v, 4).(string)}, nil
		}),
		rAct(ident, func(v interface{}, t []byte) (interface{}, error) {
			return grammar.CollectionNameBinding{Mode: grammar.CollectionBindDefault, Default: v.(string)}, nil
		}),
	)
	collOp := rChoice(
		rAct(rSeq(rLit("any"), ws), func(interface{}, []byte) (interface{}, error) { return grammar.CollectionOpAny, nil }),
		rAct(rSeq(rLit("all"), ws), func(interface{}, []byte) (interface{}, error) { return grammar.CollectionOpAll, nil }),
	)
	collExpr = rAct(rSeq(collOp, rRef(&selector), ws, rLit("as"), ws, collIdents, ows, rLit("{"), ows, rRef(&orExpr), ows, rLit("}")), func(v interface{}, t []byte) (interface{}, error) {
		return &grammar.CollectionExpression{Op: at(v, 0).(grammar.CollectionOperator), Selector: at(v, 1).(grammar.Selector), NameBinding: at(v, 5).(grammar.CollectionNameBinding), Inner: at(v, 9).(grammar.Expression)}, nil
	})
	orExpr = rChoice(
		rAct(rSeq(rRef(&andExpr), ws, rLit("or"), ws, rRef(&orExpr)), func(v interface{}, t []byte) (interface{}, error) {
			return &grammar.BinaryExpression{Operator: grammar.BinaryOpOr, Left: at(v, 0).(grammar.Expression), Right: at(v, 4).(grammar.Expression)}, nil
		}),
		rRef(&andExpr),
		rRef(&collExpr),
	)
	rpInput = rChoice(
		rAct(rSeq(ows, rLit("("), ows, rRef(&orExpr), ows, rLit(")"), ows, eof), func(v interface{}, t []byte) (interface{}, error) { return at(v, 3), nil }),
		rAct(rSeq(ows, rRef(&orExpr), ows, eof), func(v interface{}, t []byte) (interface{}, error) { return at(v, 1), nil }),
	)
}

// bxvRefParse: (tree, accepted). A type assertion that fails inside a builder
// (possible only after an error was recorded) is a recovered panic = rejection.
func bxvRefParse(in string) (tree interface{}, accepted bool) {
	p := &rp{in: []byte(in), seen: map[int]bool{}}
	defer func() {
		if r := recover(); r != nil {
			tree, accepted = nil, false
		}
	}()
	p.decode(0)
	v, _, ok := rpInput(p, 0)
	if !ok || len(p.errs) > 0 {
		return nil, false
	}
	return v, true
}

var errRefParse = errors.New("reference rejects")

func bxvCompareParse(in string, fails *[]bxvFailure) {
	want, acc := bxvRefParse(in)
	var got interface{}
	var err error
	func() {
		defer func() {
			if r := recover(); r != nil {
				err = fmt.Errorf("panic: %v", r)
			}
		}()
		got, err = grammar.Parse("", []byte(in))
	}()
	if acc != (err == nil) {
		w := "rejected"
		if acc {
			w = "accepted"
		}
		*fails = append(*fails, bxvFailure{Kind: "mismatch", Expr: strconv.Quote(in), Datum: "-", Got: fmt.Sprintf("grammar.Parse err=%v", err), Want: w + " by the reference language"})
		return
	}
	if acc && !reflect.DeepEqual(got, want) {
		var a, b strings.Builder
		if e, ok := got.(grammar.Expression); ok {
			e.ExpressionDump(&a, " ", 0)
		}
		if e, ok := want.(grammar.Expression); ok {
			e.ExpressionDump(&b, " ", 0)
		}
		*fails = append(*fails, bxvFailure{Kind: "mismatch", Expr: strconv.Quote(in), Datum: "-", Got: "tree " + fmt.Sprintf("%#v", got) + " dump: " + a.String(), Want: "tree " + fmt.Sprintf("%#v", want) + " dump: " + b.String()})
	}
}

// ---- C15: bounded exhaustive comparison over token sequences ---------------------------

var bxvLangTokens = []string{"a", "b1", "not", "and", "or", "in", "is", "empty", "contains", "matches", "any", "all", "as", "nota", "anyx", "inx", "_", ",", ".", "{", "}", "(", ")", "[", "]",
	"==", "!=", "0", "12", "1.5", "-1", "01", "1.", "\"x\"", "`y`", "\"/a/b\"", "\"/a~1b\"", "\"\"", "\"x", "`y", "\"\\q\"", "\"\\\\\"", "\"a\\\\\"", "\"\\\"\"", "\ufffd", "\"\ufffd\"", "`\ufffd`", ".0", ".b", "[\"k\"]", "[`k`]", "\xff"}

var bxvCoreTokens = []string{"a", "not", "and", "or", "in", "is", "empty", "any", "as", "x", ",", "{", "}", "(", ")", "==", "1", "\"s\"", "_", "matches"}

func bxvLangCases(fails *[]bxvFailure, stats map[string]int, samples *[]string) int {
	n := 0
	accepted := map[string]bool{}
	try := func(s string) {
		n++
		before := len(*fails)
		bxvCompareParse(s, fails)
		if len(*fails) == before {
			if _, acc := bxvRefParse(s); acc {
				if !accepted[s] {
					accepted[s] = true
					if len(*samples) < 12 && len(s) > 4 {
						*samples = append(*samples, s)
					}
				}
			}
		}
	}
	thorough := os.Getenv("BXV_TIER") == "thorough"
	gaps := []string{"", " "}
	var rec func(toks []string, prefix string, depth, max int)
	rec = func(toks []string, prefix string, depth, max int) {
		if depth == max {
			return
		}
		for _, t := range toks {
			if depth == 0 {
				try(t)
				try(" " + t + " ")
				rec(toks, t, 1, max)
				continue
			}
			for _, g := range gaps {
				s := prefix + g + t
				try(s)
				rec(toks, s, depth+1, max)
			}
		}
	}
	// enumerate in parallel, one worker per first token
	var mu sync.Mutex
	var wg sync.WaitGroup
	sem := make(chan struct{}, 14)
	par := func(toks []string, max int) {
		for _, first := range toks {
			first := first
			wg.Add(1)
			sem <- struct{}{}
			go func() {
				defer wg.Done()
				defer func() { <-sem }()
				var lf []bxvFailure
				ln := 0
				lacc := map[string]bool{}
				ltry := func(s string) {
					ln++
					before := len(lf)
					bxvCompareParse(s, &lf)
					if len(lf) == before {
						if _, acc := bxvRefParse(s); acc {
							lacc[s] = true
						}
					}
				}
				var r2 func(prefix string, depth int)
				r2 = func(prefix string, depth int) {
					if depth == max {
						return
					}
					for _, t := range toks {
						for _, g := range gaps {
							s := prefix + g + t
							ltry(s)
							r2(s, depth+1)
						}
					}
				}
				ltry(first)
				ltry(" " + first + " ")
				r2(first, 1)
				mu.Lock()
				n += ln
				*fails = append(*fails, lf...)
				for k := range lacc {
					if !accepted[k] {
						accepted[k] = true
						if len(*samples) < 12 && len(k) > 6 {
							*samples = append(*samples, k)
						}
					}
				}
				mu.Unlock()
			}()
		}
	}
	fullMax, coreMax := 2, 3
	if thorough {
		fullMax, coreMax = 3, 4
	}
	par(bxvLangTokens, fullMax)
	par(bxvCoreTokens, coreMax)
	wg.Wait()
	_ = rec
	// boundary runes in every lexical position: one representative of each
	// Unicode category the grammar's classes mention or exclude, the ends of
	// its ASCII ranges and their neighbours, the characters utf8/unicode/strings
	// treat specially, and undecodable bytes - placed where an identifier, a
	// path segment, an index, a literal, white space or a keyword is expected
	for _, x := range []string{"\x00", "\x08", "\t", "\n", "\v", "\f", "\r", " ", "\x7f", "\u0080", "\u0085", "\u00a0", "!", "\"", "#", "$", "%", "&", "'", "(", ")", "*", "+", ",", "-", ".", "/", "0", "9", ":", ";", "<", "=", ">", "?", "@",
		"A", "Z", "[", "\\", "]", "^", "_", "`", "a", "z", "{", "|", "}", "~", "é", "ß", "Ω", "Ж", "中", "\U0001d4b3", "ǅ", "ʰ", "٣", "Ⅳ", "²", "½", "\u0301", "‿", "€", "\u200b", "\u2028", "\ufeff", "\ufffd", "\u212a", "\u0130", "\u017f", "\u1e9e", "\uff21", "\uff10",
		"\U0001F600", "\U0010ffff", "\xff", "\xc3\x28", "\xed\xa0\x80", "\xc0\x80"} {
		for _, tpl := range []string{"a%s == 1", "%sa == 1", "a.b%s == 1", "a.%s == 1", "a.0%s == 1", "a[\"%s\"] == 1", "a[`%s`] == 1", "\"/a%s\" == 1", "\"/%s\" == 1", "\"/a/%s/b\" == 1", "a == %s", "a == b%s", "a == \"%s\"", "a == \"x%sy\"",
			"a == `%s`", "a ==%s1", "a == 1%s", "a == 1 %s", "a == 1%s and b == 2", "%s", "a in%s b", "a%sin b", "any%s a as x { x == 1 }", "any a as x%s { x == 1 }", "a is empty%s", "a is%sempty", "(%s a == 1)", "a == 1.%s5", "a == -%s1", "not%s a == 1", "a == 1 and%s b == 2"} {
			try(fmt.Sprintf(tpl, x))
		}
	}
	// complete statements, including the error productions and awkward layouts
	for _, s := range []string{
		"a == 1", "a==1", " a == 1 ", "(a == 1)", "( a == 1 )", "((a == 1))", "(a == 1", "a == 1)", "a == 1 and b == 2 or c == 3", "a == 1 or b == 2 and c == 3", "not a == 1 and b == 2",
		"not not a == 1", "not not not a == 1", "not (a == 1 or b == 2)", "a == 1 and (b == 2 or c == 3)", "a in b", "\"x\" in b", "1 in b", "a not in b", "a contains b", "a not contains 1",
		"a is empty", "a is not empty", "a  is   empty", "a matches \"x\"", "a not matches `y`", "a.b.c == 1", "a[\"b\"].c == 1", "a[ \"b\" ] == 1", "a[\"b\" == 1", "a[1] == 1", "a.0.b == 1",
		"\"/a/b\" == 1", "\"/a/~0b\" == 1", "\"/a/~2\" == 1", "\"\" == 1", "a == \"/x/y\"", "a == \"/x~1y\"", "a == x.y", "a == -1.5", "a == 1.", "a == 01", "a == 1x", "a == \"unterminated",
		"any a as x { x == 1 }", "all a.b as i, v { v == 1 }", "any a as _, v { v == 1 }", "any a as i, _ { i == 1 }", "any a as x{x == 1}", "any a as x { x == 1 } and b == 2", "(any a as x { x == 1 }) or b == 2",
		"b == 2 or any a as x { x == 1 }", "b == 2 and any a as x { x == 1 }", "any a as x { any x as y { y == 1 } }", "anya as x { x == 1 }", "any a asx { x == 1 }", "any a as x, { x == 1 }", "notes == 3", "nota == 1",
		"not(a == 1)", "a == 1 andb == 2", "a == 1 and not b == 2", "inx == 1", "a == 1 or", "or a == 1", "a ==", "== 1", "a == 1 b == 2", "a in", "in a", "x in 1", "a matches", "is empty", "a is", "a is not",
		"a == 1 \ufffd and this is not an expression ((", "a == 1\ufffd", "a == \"x\ufffdy\"", "a == `x\ufffdy`", "a[\"\ufffd\"] == 1", "\"/a\ufffd\" == 1", "a\ufffd == 1", "\ufffd == 1", "a == \ufffd", "a == 1 \ufeff", "a == 1\u00a0",
		"a == \"\\q\"", "a == \"a\\\"", "a == \"C:\\\\\"", "a == \"C:\\\\\" and b == \"x\"", "a == \"\\\\\\\"\"", "a == \"\\\\\\\\\"", "a[\"k\\\\\"] == 1", "a == \"\\n\\t\\\\\"", "a[\"\\x\"] == 1", "a == \"\xff\"", "a == `\xc3\x28`", "\xff", "a\x00 == 1", "é == 1", "a == é", "a == \"é\"",
	} {
		try(s)
	}
	stats["accepted_distinct"] = len(accepted)
	return n
}

// ---- C16: print-then-parse round trip ------------------------------------------------------

type bxvLayout struct {
	msp    string // mandatory whitespace ("" = one space)
	sp     string // optional whitespace
	parens int    // redundant parentheses around every node
	quote  int    // 0 double, 1 backtick, 2 bare where legal
	sel    int    // 0 dotted, 1 bracket (double), 2 bracket (backtick), 3 json pointer
	cont   bool   // contains instead of in
}

func bxvBareOK(s string) bool {
	if s == "" {
		return false
	}
	for i, r := range s {
		if !(r >= 'a' && r <= 'z' || r >= 'A' && r <= 'Z' || i > 0 && (r >= '0' && r <= '9' || r == '_')) {
			return false
		}
	}
	switch s {
	case "not", "and", "or", "in", "is", "empty", "contains", "matches", "any", "all", "as":
		return false
	}
	return true
}

var bxvBareNumber = regexp.MustCompile(`^-?(0|[1-9][0-9]*)(\.[0-9]+)?$`)

func bxvRenderLit(s string, l bxvLayout) string {
	switch {
	case l.quote == 2 && (bxvBareOK(s) || bxvBareNumber.MatchString(s)):
		return s
	case l.quote == 1 && !strings.Contains(s, "`") && utf8.ValidString(s):
		return "`" + s + "`"
	}
	return strconv.Quote(s)
}

func bxvPointerOK(parts []string) bool {
	for _, p := range parts {
		if p == "" {
			return false
		}
		for _, r := range p {
			if !(unicode.IsLetter(r) || unicode.IsNumber(r) || strings.ContainsRune("-_.:|", r)) {
				return false
			}
		}
	}
	return true
}

func bxvRenderSel(parts []string, l bxvLayout) string {
	identOK := func(s string) bool {
		if s == "" || !(s[0] >= 'a' && s[0] <= 'z' || s[0] >= 'A' && s[0] <= 'Z') {
			return false
		}
		for _, r := range s {
			if !(r >= 'a' && r <= 'z' || r >= 'A' && r <= 'Z' || r >= '0' && r <= '9' || r == '_') {
				return false
			}
		}
		return true
	}
	if l.sel == 3 && bxvPointerOK(parts) {
		return `"/` + strings.Join(parts, "/") + `"`
	}
	out := parts[0]
	for _, p := range parts[1:] {
		switch {
		case l.sel == 1 || !(identOK(p) || allDigits(p)) && l.sel != 2:
			out += "[" + l.sp + strconv.Quote(p) + l.sp + "]"
		case l.sel == 2 && !strings.Contains(p, "`"):
			out += "[`" + p + "`]"
		case identOK(p) || allDigits(p):
			out += "." + p
		default:
			out += "[" + strconv.Quote(p) + "]"
		}
	}
	return out
}

func allDigits(s string) bool {
	if s == "" {
		return false
	}
	for _, r := range s {
		if r < '0' || r > '9' {
			return false
		}
	}
	return true
}

// render prints a tree; prec: 0 or-level, 1 and-level, 2 not-level
func bxvRenderTree(e grammar.Expression, l bxvLayout, prec int) string {
	m := l.msp
	if m == "" {
		m = " "
	}
	wrap := func(s string, need bool) string {
		n := l.parens
		if need && n == 0 {
			n = 1
		}
		for i := 0; i < n; i++ {
			s = "(" + l.sp + s + l.sp + ")"
		}
		return s
	}
	switch n := e.(type) {
	case *grammar.UnaryExpression:
		return wrap("not" + m+bxvRenderTree(n.Operand, l, 2), false)
	case *grammar.BinaryExpression:
		if n.Operator == grammar.BinaryOpAnd {
			// chains group to the right: the left operand of and must bind tighter
			s := bxvRenderTree(n.Left, l, 2) + m + "and" + m + bxvRenderTree(n.Right, l, 1)
			return wrap(s, prec > 1)
		}
		s := bxvRenderTree(n.Left, l, 1) + m + "or" + m + bxvRenderTree(n.Right, l, 0)
		return wrap(s, prec > 0)
	case *grammar.MatchExpression:
		sel := bxvRenderSel(n.Selector.Path, l)
		var s string
		switch n.Operator {
		case grammar.MatchEqual:
			s = sel + l.sp + "==" + l.sp + bxvRenderLit(n.Value.Raw, l)
		case grammar.MatchNotEqual:
			s = sel + l.sp + "!=" + l.sp + bxvRenderLit(n.Value.Raw, l)
		case grammar.MatchIn:
			if l.cont {
				s = sel + m + "contains" + m + bxvRenderLit(n.Value.Raw, l)
			} else {
				s = bxvRenderLit(n.Value.Raw, l) + m + "in" + m + sel
			}
		case grammar.MatchNotIn:
			if l.cont {
				s = sel + m + "not" + m + "contains" + m + bxvRenderLit(n.Value.Raw, l)
			} else {
				s = bxvRenderLit(n.Value.Raw, l) + m + "not" + m + "in" + m + sel
			}
		case grammar.MatchIsEmpty:
			s = sel + m + "is" + m + "empty"
		case grammar.MatchIsNotEmpty:
			s = sel + m + "is" + m + "not" + m + "empty"
		case grammar.MatchMatches:
			s = sel + m + "matches" + m + bxvRenderLit(n.Value.Raw, l)
		case grammar.MatchNotMatches:
			s = sel + m + "not" + m + "matches" + m + bxvRenderLit(n.Value.Raw, l)
		}
		return wrap(s, false)
	case *grammar.CollectionExpression:
		nb := n.NameBinding
		var b string
		switch nb.Mode {
		case grammar.CollectionBindDefault:
			b = nb.Default
		case grammar.CollectionBindIndex:
			b = nb.Index + l.sp + "," + l.sp + "_"
		case grammar.CollectionBindValue:
			b = "_" + l.sp + "," + l.sp + nb.Value
		default:
			b = nb.Index + l.sp + "," + l.sp + nb.Value
		}
		op := "any"
		if n.Op == grammar.CollectionOpAll {
			op = "all"
		}
		s := op + m + bxvRenderSel(n.Selector.Path, l) + m + "as" + m + b + l.sp + "{" + l.sp + bxvRenderTree(n.Inner, l, 0) + l.sp + "}"
		// a quantifier is an alternative of OrExpression only: anywhere else it needs parentheses
		return wrap(s, prec > 0)
	}
	return "?"
}

// the selector type is not part of what a text spelling determines uniquely
// when the layout changes it: compare trees modulo Selector.Type
func bxvStripSelType(e grammar.Expression) {
	switch n := e.(type) {
	case *grammar.UnaryExpression:
		bxvStripSelType(n.Operand)
	case *grammar.BinaryExpression:
		bxvStripSelType(n.Left)
		bxvStripSelType(n.Right)
	case *grammar.MatchExpression:
		n.Selector.Type = 0
	case *grammar.CollectionExpression:
		n.Selector.Type = 0
		bxvStripSelType(n.Inner)
	}
}

func bxvTrees(depth int) []func() grammar.Expression {
	sels := [][]string{{"a"}, {"a", "b", "0"}, {"x", "k-1"}}
	lits := []string{"v", "1", "two words", "", "-0.25", "8080"}
	var leaves []func() grammar.Expression
	for si := range sels {
		for op := grammar.MatchEqual; op <= grammar.MatchNotMatches; op++ {
			for li := range lits {
				si, op, li := si, op, li
				if (op == grammar.MatchIsEmpty || op == grammar.MatchIsNotEmpty) && li > 0 {
					continue
				}
				if (si+int(op)+li)%3 != 0 && depth > 0 {
					continue // thin the leaves below the top level
				}
				leaves = append(leaves, func() grammar.Expression {
					m := &grammar.MatchExpression{Selector: grammar.Selector{Type: grammar.SelectorTypeBexpr, Path: append([]string(nil), sels[si]...)}, Operator: op}
					if op != grammar.MatchIsEmpty && op != grammar.MatchIsNotEmpty {
						m.Value = &grammar.MatchValue{Raw: lits[li]}
					}
					return m
				})
			}
		}
	}
	if depth == 0 {
		return leaves
	}
	sub := bxvTrees(depth - 1)
	if len(sub) > 14 {
		step := len(sub) / 14
		var thin []func() grammar.Expression
		for i := 0; i < len(sub); i += step {
			thin = append(thin, sub[i])
		}
		sub = thin
	}
	out := append([]func() grammar.Expression(nil), leaves...)
	for _, a := range sub {
		a := a
		out = append(out, func() grammar.Expression {
			x := a()
			if u, ok := x.(*grammar.UnaryExpression); ok {
				return u // not not e is e: the parser never builds Not(Not(e)); keep trees in normal form
			}
			return &grammar.UnaryExpression{Operator: grammar.UnaryOpNot, Operand: x}
		})
		for bi, mode := range []grammar.CollectionNameBinding{{Mode: grammar.CollectionBindDefault, Default: "x"}, {Mode: grammar.CollectionBindIndex, Index: "i"}, {Mode: grammar.CollectionBindValue, Value: "v"}, {Mode: grammar.CollectionBindIndexAndValue, Index: "i", Value: "v"}} {
			mode := mode
			op := grammar.CollectionOpAny
			if bi%2 == 1 {
				op = grammar.CollectionOpAll
			}
			out = append(out, func() grammar.Expression {
				return &grammar.CollectionExpression{Op: op, Selector: grammar.Selector{Type: grammar.SelectorTypeBexpr, Path: []string{"c", "d"}}, NameBinding: mode, Inner: a()}
			})
		}
		for _, b := range sub {
			b := b
			out = append(out, func() grammar.Expression {
				return &grammar.BinaryExpression{Operator: grammar.BinaryOpAnd, Left: a(), Right: b()}
			}, func() grammar.Expression {
				return &grammar.BinaryExpression{Operator: grammar.BinaryOpOr, Left: a(), Right: b()}
			})
		}
	}
	return out
}

func bxvRoundTripCases(fails *[]bxvFailure, stats map[string]int, samples *[]string) int {
	n := 0
	thorough := os.Getenv("BXV_TIER") == "thorough"
	depth := 2
	layouts := []bxvLayout{{sp: " "}, {sp: "", parens: 0, quote: 1, sel: 1}, {sp: "  ", parens: 1, quote: 2, sel: 3, cont: true}, {sp: "\t", parens: 0, quote: 0, sel: 2},
		// every kind of white space in the mandatory positions too (a bare literal followed by a tab or a line break, keywords separated by them)
		{msp: "\t", sp: "", quote: 2}, {msp: "\n", sp: "\n", quote: 2, sel: 1}, {msp: "\r\n", sp: " ", quote: 2, cont: true}, {msp: " \t\n", sp: "\r", quote: 0, sel: 3}}
	if thorough {
		for _, sp := range []string{"", " ", " \n "} {
			for p := 0; p <= 1; p++ {
				for q := 0; q <= 2; q++ {
					for s := 0; s <= 3; s++ {
						layouts = append(layouts, bxvLayout{sp: sp, parens: p, quote: q, sel: s, cont: (p+q+s)%2 == 0})
					}
				}
			}
		}
	}
	seen := map[string]bool{}
	trees := bxvTrees(depth)
	if !thorough && len(trees) > 1500 {
		step := len(trees) / 1500
		var thin []func() grammar.Expression
		for i := 0; i < len(trees); i += step {
			thin = append(thin, trees[i])
		}
		trees = thin
	}
	for _, mk := range trees {
		for _, l := range layouts {
			tree := mk()
			text := bxvRenderTree(tree, l, 0)
			n++
			if !seen[text] {
				seen[text] = true
				if len(*samples) < 10 && len(text) > 30 {
					*samples = append(*samples, text)
				}
			}
			got, err := grammar.Parse("", []byte(text))
			if err != nil {
				*fails = append(*fails, bxvFailure{Kind: "mismatch", Expr: text, Datum: "rendered tree", Got: "parse error: " + err.Error(), Want: "the tree it was rendered from"})
				continue
			}
			ge := got.(grammar.Expression)
			bxvStripSelType(ge)
			bxvStripSelType(tree)
			if !reflect.DeepEqual(ge, tree) {
				var a, b strings.Builder
				ge.ExpressionDump(&a, " ", 0)
				tree.ExpressionDump(&b, " ", 0)
				*fails = append(*fails, bxvFailure{Kind: "mismatch", Expr: text, Datum: "rendered tree", Got: a.String(), Want: b.String()})
			}
		}
	}
	stats["distinct_texts"] = len(seen)
	// literal fidelity: X == <quoted s> is true of X = s
	strs := []string{"", "a", "two words", "é", "日本語", "\"quoted\"", "back\\slash", "/usr/bin", "/a~1b", "/a~0b/c", "~", "line\nbreak", "tab\t", "\x00", "`tick`", "a`b\"c", "{}", "not", "1", "-1.5", "0x10", "true", " lead", "trail ", "\u2028", "\U0001F600", "\ufffd", "a\ufffdb", "\ufffd\ufffd", "\ufeff", "x\u0080y", "\u07ff", "\uffff", "\U0010ffff", "ends\\", "\\\\", "q\"\\", "a\u00a0b", "\u00a0", "\u2007x", "\u202f", "x\u3000", "\u1680", "\u2003\u205f", "\u0085", "\v\f"}
	for i := 0; i < 200; i++ {
		var sb strings.Builder
		x := uint32(i*2654435761 + 12345)
		for j := 0; j < 1+i%7; j++ {
			x = x*1664525 + 1013904223
			alpha := []rune(" aZ09/~\"\\`'{}[]().,:|_-=!\t\né日\ufffd")
			sb.WriteRune(alpha[int(x>>16)%len(alpha)])
		}
		strs = append(strs, sb.String())
	}
	for _, s := range strs {
		for q := 0; q < 2; q++ {
			lit := strconv.Quote(s)
			if q == 1 {
				if strings.Contains(s, "`") || strings.Contains(s, "\r") {
					continue
				}
				lit = "`" + s + "`"
			}
			n++
			expr := "X == " + lit
			ev, err := CreateEvaluator(expr)
			if err != nil {
				*fails = append(*fails, bxvFailure{Kind: "mismatch", Expr: expr, Datum: "-", Got: "rejected: " + err.Error(), Want: "accepted"})
				continue
			}
			for _, d := range []interface{}{map[string]string{"X": s}, struct{ X string }{s}} {
				r, err := ev.Evaluate(d)
				if err != nil || !r {
					*fails = append(*fails, bxvFailure{Kind: "mismatch", Expr: expr, Datum: fmt.Sprintf("X = %q", s), Got: fmt.Sprint(r, err), Want: "true"})
				}
			}
			if r, err := ev.Evaluate(map[string]string{"X": s + "x"}); err != nil || r {
				*fails = append(*fails, bxvFailure{Kind: "mismatch", Expr: expr, Datum: fmt.Sprintf("X = %q", s+"x"), Got: fmt.Sprint(r, err), Want: "false"})
			}
		}
	}
	return n
}

// ---- C07: spellings of a path are interchangeable ---------------------------------------------

func bxvSpellingCases(fails *[]bxvFailure, stats map[string]int, samples *[]string) int {
	n := 0
	keys := []string{"a", "b1", "0", "12", "01", "007", "x²", "٣", "Ⅷ", "½", "x-y", "~1", "~0", "~", "a~b", "A", "é", "a:b", "a|b", "k.dot"}
	mkData := func(path []string) interface{} {
		var d interface{} = "leaf"
		for i := len(path) - 1; i >= 0; i-- {
			d = map[string]interface{}{path[i]: d, "other": "o", strings.ToUpper(path[i]) + "_": "wrongcase", " " + path[i]: "untrimmed"}
		}
		return d
	}
	esc := func(p string) string { return strings.ReplaceAll(strings.ReplaceAll(p, "~", "~0"), "/", "~1") }
	identOK := func(s string) bool { return bxvBareOK(s) }
	spell := func(path []string, mode int) (string, bool) {
		switch mode {
		case 3:
			var segs []string
			for _, p := range path {
				e := esc(p)
				for _, r := range e {
					if !(unicode.IsLetter(r) || unicode.IsNumber(r) || strings.ContainsRune("-_.~:|", r)) {
						return "", false
					}
				}
				segs = append(segs, e)
			}
			return `"/` + strings.Join(segs, "/") + `"`, true
		}
		if !identOK(path[0]) {
			return "", false
		}
		out := path[0]
		for _, p := range path[1:] {
			switch mode {
			case 0:
				if !(identOK(p) || allDigits(p)) {
					return "", false
				}
				out += "." + p
			case 1:
				out += "[" + strconv.Quote(p) + "]"
			case 2:
				if strings.Contains(p, "`") {
					return "", false
				}
				out += "[`" + p + "`]"
			}
		}
		return out, true
	}
	templates := []string{"%s == leaf", "%s != leaf", "leaf in %s", "%s is empty", "%s matches `le.*`", "any W as w { %s == leaf }", "not %s == leaf"}
	for _, k1 := range keys {
		for _, k2 := range keys {
			for _, extra := range [][]string{nil, {"z"}} {
				path := append([]string{"r", k1, k2}, extra...)
				d := mkData(path)
				d.(map[string]interface{})["W"] = []int{1}
				var base string
				for mode := 0; mode <= 3; mode++ {
					sp, ok := spell(path, mode)
					if !ok {
						continue
					}
					for _, t := range templates {
						expr := fmt.Sprintf(t, sp)
						// compare against the bracket spelling (always available)
						ref, _ := spell(path, 1)
						ev2, err2 := CreateEvaluator(fmt.Sprintf(t, ref))
						if err2 != nil {
							continue
						}
						ev, err := CreateEvaluator(expr)
						if err != nil {
							// the grammar admits this spelling of the path (spell() follows grammar.peg), the bracket spelling is accepted, this one is not
							n++
							*fails = append(*fails, bxvFailure{Kind: "mismatch", Expr: expr, Datum: bxvDescribe(d), Got: "rejected: " + err.Error(), Want: "accepted like " + fmt.Sprintf(t, ref)})
							continue
						}
						n++
						r, e := ev.Evaluate(d)
						got := fmt.Sprintf("%s:%v/%v", t, r, e != nil)
						_ = base
						r2, e2 := ev2.Evaluate(d)
						want := fmt.Sprintf("%s:%v/%v", t, r2, e2 != nil)
						if got != want {
							*fails = append(*fails, bxvFailure{Kind: "mismatch", Expr: expr, Datum: bxvDescribe(d), Got: got, Want: want + " (spelling " + ref + ")"})
						}
						if len(*samples) < 8 && mode == 3 && k1 != k2 {
							*samples = append(*samples, expr)
						}
					}
				}
			}
		}
	}
	stats["spellings"] = n
	// quantified collection and quantifier body in every spelling
	d := map[string]interface{}{"a": map[string]interface{}{"b~1": []interface{}{map[string]interface{}{"c": "leaf"}}}}
	for _, e := range [][2]string{
		{`any a["b~1"] as x { x.c == leaf }`, `any "/a/b~01" as x { x.c == leaf }`},
		{`any a["b~1"] as x { x["c"] == leaf }`, `any a["b~1"] as x { "/x/c" == leaf }`},
		{"all a[`b~1`] as i, x { x.c == leaf and i == 0 }", `all "/a/b~01" as i, x { x["c"] == leaf and i == 0 }`},
	} {
		var outs [2]string
		for i := 0; i < 2; i++ {
			ev, err := CreateEvaluator(e[i])
			if err != nil {
				outs[i] = "rejected"
				continue
			}
			r, er := ev.Evaluate(d)
			outs[i] = fmt.Sprint(r, er != nil)
		}
		n++
		if outs[0] != outs[1] {
			*fails = append(*fails, bxvFailure{Kind: "mismatch", Expr: e[1], Datum: bxvDescribe(d), Got: outs[1], Want: outs[0] + " (spelling " + e[0] + ")"})
		}
	}
	return n
}
