package main

import (
	"encoding/json"
	"flag"
	"fmt"
	"golang.org/x/tools/go/ssa"
	"os"
	"path/filepath"
	"regexp"
	"sort"
	"strconv"
	"strings"
	"time"
)

type knownFinding struct {
	Property   string `json:"property"`
	Obligation string `json:"obligation"` // obligation name without @k suffix
	Class      string `json:"class"`      // input class (substring that must occur in the model summary), may be empty
	What       string `json:"what"`
}

type knownFile struct {
	Findings []knownFinding `json:"findings"`
	Fixed    []string       `json:"fixed"`
}

func loadKnown() knownFile {
	var k knownFile
	b, err := os.ReadFile("/verif/known_findings.json")
	if err == nil {
		_ = json.Unmarshal(b, &k)
	}
	return k
}

var atSuffix = regexp.MustCompile(`@\d+$`)

func baseOblName(n string) string { return atSuffix.ReplaceAllString(n, "") }

type violation struct {
	Obl    *Oblig
	Replay string
	Repro  bool
	Reason string
}

type checkResult struct {
	obls           []*Oblig
	extraObls      []*Oblig
	violations     []violation
	known          []string
	bounded        map[string]any
	notes          []string
	batterySamples []any
	closureAdded   []string // functions encoded because they are reachable from the property's entry points
}

func selectForProperty(id string, obls []*Oblig) []*Oblig {
	// Every clause of every function of the property's set is checked: a
	// clause tagged for another property is still an assumption of this one
	// at the call sites (modular reasoning), so leaving it out would let a
	// change that breaks it go unnoticed here. Tags select lemmas only.
	return obls
}

func cmdCheck(args []string) int {
	fs := flag.NewFlagSet("check", flag.ExitOnError)
	id := fs.String("property", "", "property id")
	tier := fs.String("tier", "", "quick|thorough")
	fs.Parse(args)
	if *tier == "" {
		*tier = os.Getenv("VERIF_TIER")
	}
	if *tier != "thorough" {
		*tier = "quick"
	}
	seed := 0
	if s := os.Getenv("VERIF_SEED"); s != "" {
		seed, _ = strconv.Atoi(s)
	}
	spec := propTable[*id]
	if spec == nil {
		fmt.Fprintf(os.Stderr, "unknown property %q\n", *id)
		return 2
	}
	t0 := time.Now()
	V, err := newVerifier(*tier)
	if os.Getenv("BXV_TIMING") != "" {
		fmt.Fprintf(os.Stderr, "load: %.1fs\n", time.Since(t0).Seconds())
	}
	if err != nil {
		// the tree does not load (does not compile with the verif tag): every
		// obligation is undecided; report as a tool failure, not a violation
		fmt.Fprintf(os.Stderr, "bxv: cannot load /repo: %v\n", err)
		return 2
	}
	defer V.Close()
	V.wantModel = true
	V.seed = seed
	res := V.runProperty(spec)
	wall := time.Since(t0).Seconds()
	code := V.report(spec, res, *tier, seed, wall)
	return code
}

func (V *Verifier) runProperty(spec *propSpec) *checkResult {
	res := &checkResult{bounded: map[string]any{}}
	t0 := time.Now()
	funcs := spec.Funcs
	if len(spec.SafetyClosure) > 0 {
		have := map[string]bool{}
		for _, k := range funcs {
			have[k] = true
		}
		funcs = append([]string(nil), funcs...)
		for _, k := range V.reachableFromUntrusted(spec.SafetyClosure...) {
			if os.Getenv("BXV_DEBUG_CLOSURE") != "" {
				fmt.Fprintf(os.Stderr, "closure %s have=%v con=%v asvalue=%v shape=%v\n", k, have[k], V.CS.ByKey[k] != nil, V.usedAsValue[k], V.inlinableShape(V.P.Funcs[k], k))
			}
			if fn := V.P.Funcs[k]; !have[k] && V.CS.ByKey[k] == nil && fn != nil && fn.Parent() != nil && literalOnlyCalledOnTheSpot(fn) && V.inlinableBody(fn, k) {
				// a function literal that is only called where it is made: inlined there
				continue
			}
			if !have[k] && V.CS.ByKey[k] == nil && !V.usedAsValue[k] && V.inlinableShape(V.P.Funcs[k], k) {
				// no contract, only ever called directly, and of inlinable shape: its
				// run-time checks are obligations of its callers (inl.<callee>.<check>)
				continue
			}
			if !have[k] {
				have[k] = true
				funcs = append(funcs, k)
				res.closureAdded = append(res.closureAdded, k)
			}
		}
	}
	obls := V.encodeFuncs(funcs)
	if os.Getenv("BXV_TIMING") != "" {
		fmt.Fprintf(os.Stderr, "encode: %.1fs\n", time.Since(t0).Seconds())
	}
	obls = selectForProperty(spec.ID, obls)
	obls = append(obls, V.lemmaObligations(spec)...)
	for _, x := range spec.Extras {
		if x == "table:typing" {
			smt, dec := V.typingObligations(spec)
			obls = append(obls, smt...)
			res.extraObls = append(res.extraObls, dec...)
		}
	}
	res.obls = obls
	t1 := time.Now()
	V.discharge(obls)
	if os.Getenv("BXV_TIMING") != "" {
		fmt.Fprintf(os.Stderr, "discharge: %.1fs\n", time.Since(t1).Seconds())
		var real []*Oblig
		for _, o := range obls {
			if !o.ExpectSat {
				real = append(real, o)
			}
		}
		sort.Slice(real, func(i, j int) bool { return real[i].Res.Secs > real[j].Res.Secs })
		for i := 0; i < 8 && i < len(real); i++ {
			fmt.Fprintf(os.Stderr, "  %.2fs (gen %.2fs) %s %s %s\n", real[i].Res.Secs, real[i].GenSecs, real[i].Res.Verdict, real[i].Res.Solver, real[i].Name)
		}
	}
	if spec.BatteryIsCheck {
		br := V.runBattery(spec.ID)
		res.bounded["evaluations"] = br.Cases
		dn := 0
		if br.Stats != nil {
			dn = br.Stats[spec.DistinctKey]
		}
		res.bounded["distinct_nontrivial"] = dn
		var smp []any
		for _, s := range br.Samples {
			smp = append(smp, map[string]any{"input": s})
		}
		res.batterySamples = smp
		res.bounded["bounded_run"] = map[string]any{"cmd": br.Cmd, "secs": round2(br.Secs), "failing": len(br.Failures), "stats": br.Stats, "error": br.Err,
			"label": "bounded stand-in: the real functions are run on an enumerated input space against an independent reference; never counted as proved"}
		if br.Err != "" || br.Cases == 0 {
			o := &Oblig{Name: "bounded:" + spec.ID + ":did-not-run", Fn: "bounded", Kind: "bounded", Decided: true, Note: br.Err + " " + truncate(br.Output, 1500)}
			o.Res = SolveResult{Verdict: Sat, Solver: "go test (bounded run)", Output: o.Note}
			res.extraObls = append(res.extraObls, o)
		}
		for i, f := range br.Failures {
			if i >= 5 {
				break
			}
			o := &Oblig{Name: fmt.Sprintf("bounded:%s:%s@%d", spec.ID, f.Kind, i+1), Fn: "bounded", Kind: "bounded", Decided: true, Note: fmt.Sprintf("%s on %s: got %s want %s", f.Expr, f.Datum, truncate(f.Got, 300), truncate(f.Want, 300))}
			o.Res = SolveResult{Verdict: Sat, Solver: "go test (bounded run)", Output: o.Note}
			res.extraObls = append(res.extraObls, o)
		}
		if len(br.Failures) == 0 && br.Err == "" && br.Cases > 0 {
			o := &Oblig{Name: "bounded:" + spec.ID + ":all-cases-agree", Fn: "bounded", Kind: "bounded", Decided: true}
			o.Res = SolveResult{Verdict: Unsat, Solver: "go test (bounded run)"}
			res.extraObls = append(res.extraObls, o)
		}
	}
	// thorough tier: the replay battery is also run as a bounded cross-check
	// (reported under coverage.bounded, never counted as proved)
	if V.Tier == "thorough" && !spec.NoBattery && !spec.BatteryIsCheck {
		br := V.runBattery(spec.ID)
		res.bounded["bounded_battery"] = map[string]any{"cases": br.Cases, "failing": len(br.Failures), "cmd": br.Cmd, "secs": round2(br.Secs),
			"label": "bounded: real code vs executable transcription of the spec on an enumerated battery; not counted in obligations/discharged"}
		if len(br.Failures) > 0 {
			o := &Oblig{Name: "battery:" + spec.ID, Fn: "battery", Kind: "bounded", Decided: true, Note: fmt.Sprintf("%d failing inputs", len(br.Failures))}
			o.Res = SolveResult{Verdict: Sat, Solver: "go test (battery)", Output: fmt.Sprintf("%+v", br.Failures[0])}
			res.extraObls = append(res.extraObls, o)
		}
	}
	// extra engines
	for _, x := range spec.Extras {
		V.runExtra(spec, x, res)
	}
	return res
}

func (V *Verifier) report(spec *propSpec, res *checkResult, tier string, seed int, wall float64) int {
	known := loadKnown()
	id := spec.ID
	replayDir := filepath.Join(outBase(), "replays", id)
	_ = os.RemoveAll(replayDir)
	nObl, nDis := 0, 0
	byKind := map[string]int{}
	byBackend := map[string]int{}
	var solverSecs float64
	vac := map[string]int{"canaries": 0, "reachable": 0, "undecided": 0, "vacuous": 0}
	var failed []*Oblig
	all := append(append([]*Oblig(nil), res.obls...), res.extraObls...)
	deadSeen := map[string][]*Oblig{}
	for _, o := range all {
		if o.ExpectSat {
			vac["canaries"]++
			switch o.Res.Verdict {
			case Sat:
				vac["reachable"]++
			case Unsat:
				deadSeen[o.Fn] = append(deadSeen[o.Fn], o)
			default:
				vac["undecided"]++
			}
			continue
		}
		nObl++
		byKind[o.Kind]++
		solverSecs += o.Res.Secs
		if o.Res.Verdict == Unsat {
			nDis++
			byBackend[strings.TrimSuffix(o.Res.Solver, " (cached)")]++
		} else {
			failed = append(failed, o)
		}
	}
	// returns proved unreachable: allowed only as many as the contract declares
	for fn, os := range deadSeen {
		allowed := 0
		if c := V.CS.ByKey[fn]; c != nil {
			allowed = c.DeadReturns
		}
		if len(os) <= allowed {
			vac["declared-dead"] += len(os)
			continue
		}
		vac["vacuous"] += len(os)
		failed = append(failed, os...)
	}
	// encode errors are failures of the functions' obligations
	var encErrKeys []string
	for k := range V.encErrs {
		encErrKeys = append(encErrKeys, k)
	}
	sort.Strings(encErrKeys)
	exit := 0
	var violLines []string
	var knownLines []string
	nViol := 0
	for _, k := range encErrKeys {
		inSpec := false
		for _, f := range spec.Funcs {
			if f == k {
				inSpec = true
			}
		}
		if !inSpec {
			continue
		}
		nObl++
		nViol++
		_ = os.MkdirAll(replayDir, 0o755)
		path := filepath.Join(replayDir, sanitizeFile(k+"-encode")+".json")
		m := map[string]any{"property": id, "obligation": k + "#contract:cannot-generate-obligations", "reason": V.encErrs[k].Error(),
			"explanation": "the contract of this function can no longer be turned into obligations on the current tree (function missing, signature changed, or a construct outside the verified subset): the obligations that were discharged on the unchanged tree are now undecided"}
		// the real code is still run against the executable oracles: a failing input there is the replayed counterexample
		cv := violation{Replay: path}
		V.concretise(spec, &Oblig{Name: k + "#contract", Res: SolveResult{Verdict: Unknown}}, m, replayDir, &cv)
		writeJSON(path, m)
		line := fmt.Sprintf("VIOLATION property=%s replay=%s obligation=%s", id, path, k+"#contract")
		if !cv.Repro {
			line += " no-failing-input-found"
		}
		violLines = append(violLines, line)
	}
	for _, o := range failed {
		// known finding?
		isKnown := false
		for _, kf := range known.Findings {
			if kf.Property == id && kf.Obligation == baseOblName(o.Name) && (kf.Class == "" || strings.Contains(o.Res.Output, kf.Class)) {
				isKnown = true
				knownLines = append(knownLines, fmt.Sprintf("KNOWN-FINDING: property=%s %s %s", id, kf.Obligation, kf.What))
			}
		}
		if isKnown {
			continue
		}
		nViol++
		_ = os.MkdirAll(replayDir, 0o755)
		v := V.makeReplay(spec, o, replayDir)
		line := fmt.Sprintf("VIOLATION property=%s replay=%s obligation=%s", id, v.Replay, o.Name)
		if !v.Repro {
			line += " no-failing-input-found"
		}
		violLines = append(violLines, line)
		res.violations = append(res.violations, v)
	}
	if nViol > 0 {
		exit = 1
	}
	// evidence
	samples := V.sampleObligations(all, failed)
	samples = append(res.batterySamples, samples...)
	funcs := append([]string(nil), spec.Funcs...)
	for _, k := range res.closureAdded {
		funcs = append(funcs, k+" (reachable from the entry points; safety sweep)")
	}
	for _, x := range spec.Extras {
		if x == "table:typing" {
			var rn []string
			for n := range V.CS.Rules {
				rn = append(rn, n)
			}
			sort.Strings(rn)
			funcs = append(funcs, fmt.Sprintf("grammar.g (rule table of grammar.go; rule contracts on: %s)", strings.Join(rn, ", ")))
		}
	}
	var imprecise, notes []string
	for _, k := range spec.Funcs {
		if e := V.encs[k]; e != nil {
			for _, n := range e.imprecise {
				imprecise = append(imprecise, k+": "+n)
			}
			for _, n := range e.notes {
				notes = append(notes, k+": "+n)
			}
		}
	}
	assumptions := V.assumptionList(spec)
	cov := map[string]any{
		"obligations":              nObl,
		"discharged":               nDis,
		"checker_cmd":              "z3-new -smt2 -t:<ms> q.smt2 | cvc5 --lang=smt2 --tlimit=<ms> q.smt2 | /usr/bin/z3 -smt2 -t:<ms> q.smt2 (portfolio; one closed query per obligation); frame obligations: bxv's own SSA walk",
		"trusted_base":             spec.Trusted,
		"samples":                  samples,
		"functions_under_contract": funcs,
		"obligations_by_kind":      byKind,
		"discharged_by_backend":    byBackend,
		"solver_secs_total":        round2(solverSecs),
		"vacuity":                  vac,
		"abstractions":             notes,
		"imprecise":                imprecise,
		"cache":                    map[string]int{"hits": cacheHits, "misses": cacheMisses},
		"known_findings_reported":  knownLines,
	}
	for k, v := range res.bounded {
		cov[k] = v
	}
	if spec.Rule != "" {
		cov["rule"] = spec.Rule
	}
	ev := map[string]any{
		"property_id": id,
		"tier":        tier,
		"seed":        seed,
		"level":       spec.Level,
		"coverage":    cov,
		"assumptions": assumptions,
		"wall_s":      round2(wall),
		"violations":  nViol,
	}
	_ = os.MkdirAll(filepath.Join(outBase(), "evidence"), 0o755)
	writeJSON(filepath.Join(outBase(), "evidence", id+".json"), ev)
	for _, l := range knownLines {
		fmt.Println(l)
	}
	for _, l := range violLines {
		fmt.Println(l)
	}
	fmt.Printf("%s %s: %d obligations, %d discharged, %d violations, vacuity %v, %.1fs\n", id, tier, nObl, nDis, nViol, vac, wall)
	return exit
}

func round2(f float64) float64 { return float64(int(f*100+0.5)) / 100 }

func writeJSON(path string, v any) {
	b, err := json.MarshalIndent(v, "", " ")
	if err != nil {
		panic(err)
	}
	_ = os.WriteFile(path, append(b, '\n'), 0o644)
}

func (V *Verifier) sampleObligations(all, failed []*Oblig) []any {
	var out []any
	pick := func(o *Oblig, full bool) {
		m := map[string]any{"name": o.Name, "kind": o.Kind, "verdict": string(o.Res.Verdict), "backend": o.Res.Solver, "secs": round2(o.Res.Secs)}
		if o.Clause != nil {
			m["clause"] = o.Clause.Kind + " " + o.Clause.Text
		}
		if o.ExpectSat {
			m["canary"] = "must be satisfiable (reachability of a return under the requires)"
		}
		if full && o.enc != nil {
			m["goal_smt2"] = truncate(o.Goal, 600)
			m["guard_smt2"] = truncate(o.Guard, 200)
			m["context_asserts"] = o.CtxLen
		}
		if o.Decided {
			m["decided_by"] = "bxv SSA frame walk: " + o.Note
		}
		out = append(out, m)
	}
	seen := map[string]bool{}
	for _, o := range failed {
		if len(out) < 6 {
			pick(o, true)
			seen[o.Name] = true
		}
	}
	want := map[string]int{"pre": 2, "safe": 2, "post": 3, "inv-pres": 1, "dec": 1, "frame": 1, "vacuity": 1, "lemma": 2, "table": 2, "typing": 1}
	for _, o := range all {
		if seen[o.Name] || want[o.Kind] == 0 {
			continue
		}
		want[o.Kind]--
		pick(o, true)
	}
	return out
}

func (V *Verifier) assumptionList(spec *propSpec) []string {
	var out []string
	b, err := os.ReadFile(specDir() + "/ASSUMPTIONS.md")
	if err == nil {
		re := regexp.MustCompile(`^\* \*\*(A-[A-Z0-9-]+)\*\*\s*(.*)$`)
		for _, line := range strings.Split(string(b), "\n") {
			if m := re.FindStringSubmatch(line); m != nil {
				for _, t := range spec.Trusted {
					if t == m[1] {
						out = append(out, m[1]+": "+m[2])
					}
				}
			}
		}
	}
	// external / trusted contracts actually used
	used := map[string]bool{}
	for _, k := range spec.Funcs {
		for c := range V.callGraph[k] {
			if cn := V.CS.ByKey[c]; cn != nil && (cn.External || cn.Trusted) {
				used[c] = true
			}
		}
	}
	var ks []string
	for k := range used {
		ks = append(ks, k)
	}
	sort.Strings(ks)
	if len(ks) > 0 {
		out = append(out, "assumed (external/trusted) contracts used: "+strings.Join(ks, ", "))
	}
	out = append(out, "integers are mathematical with the machine range asserted for every value and a no-overflow obligation on + - *")
	return out
}

// outBase: where evidence and replays are written (/verif unless the
// selftest redirects them while checking a scratch copy of the repository).
func outBase() string {
	if d := os.Getenv("BXV_OUT_BASE"); d != "" {
		return d
	}
	return "/verif"
}

// literalOnlyCalledOnTheSpot: every MakeClosure of fn in its parent is used
// only as the callee of calls (never deferred, stored, passed or returned).
func literalOnlyCalledOnTheSpot(fn *ssa.Function) bool {
	parent := fn.Parent()
	if parent == nil {
		return false
	}
	found := false
	for _, b := range parent.Blocks {
		for _, in := range b.Instrs {
			// a literal without free variables is the function itself as callee
			if c, ok := in.(ssa.CallInstruction); ok {
				if f, isF := c.Common().Value.(*ssa.Function); isF && f == fn {
					if _, isCall := in.(*ssa.Call); !isCall {
						return false
					}
					found = true
				}
				for _, a := range c.Common().Args {
					if f, isF := a.(*ssa.Function); isF && f == fn {
						return false
					}
				}
			}
			mc, ok := in.(*ssa.MakeClosure)
			if !ok || mc.Fn != ssa.Value(fn) {
				continue
			}
			found = true
			refs := mc.Referrers()
			if refs == nil {
				return false
			}
			for _, r := range *refs {
				switch r := r.(type) {
				case *ssa.Call:
					if r.Call.Value != ssa.Value(mc) {
						return false
					}
				case *ssa.DebugRef:
				default:
					return false
				}
			}
		}
	}
	return found
}
