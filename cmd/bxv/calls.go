package main

import (
	"fmt"
	"go/token"
	"go/types"
	"strings"

	"golang.org/x/tools/go/ssa"
)

// candidates returns the function-value constructors whose signature matches.
func (V *Verifier) candidates(sig *types.Signature) []*fnCtor {
	var out []*fnCtor
	for _, k := range sortedFuncKeys(V.P.Funcs) {
		f := V.P.Funcs[k]
		fs := f.Signature
		if fs.Recv() != nil {
			continue
		}
		if types.Identical(stripRecv(fs), stripRecv(sig)) {
			if V.usedAsValue[k] {
				out = append(out, V.U.fnCtorOf(f))
			}
		}
	}
	// rule-table callbacks: method expressions (*parser).callonX
	if sigIsParserCallback(sig) {
		for _, k := range sortedFuncKeys(V.P.Funcs) {
			f := V.P.Funcs[k]
			if strings.HasPrefix(k, "grammar.parser.callon") && types.Identical(f.Signature.Results(), sig.Results()) {
				out = append(out, V.U.fnCtorOf(f))
			}
		}
	}
	return out
}

func stripRecv(s *types.Signature) *types.Signature {
	return types.NewSignatureType(nil, nil, nil, s.Params(), s.Results(), s.Variadic())
}

func (e *fnEnc) call(in ssa.Instruction, cc *ssa.CallCommon) []Term {
	U := e.U
	pos := in.Pos()
	var resT *types.Tuple = cc.Signature().Results()
	mkRes := func(prefix string) []Term {
		var out []Term
		for i := 0; i < resT.Len(); i++ {
			s := U.sortOf(resT.At(i).Type())
			t := Term{e.fresh(prefix, s), s, resT.At(i).Type()}
			e.typeFacts(t, "")
			out = append(out, t)
		}
		return out
	}
	// builtins
	if b, ok := cc.Value.(*ssa.Builtin); ok {
		return e.builtin(in, b, cc)
	}
	key := calleeKey(cc)
	var args []Term
	if cc.IsInvoke() {
		args = append(args, e.get(cc.Value))
	}
	for _, a := range cc.Args {
		args = append(args, e.get(a))
	}
	if cc.IsInvoke() {
		recv := args[0]
		if recv.Sort == "Any" {
			e.safe("nil-invoke", fmt.Sprintf("(not (= %s nilAny))", recv.S), pos)
		} else if recv.Sort == "Type" {
			e.safe("nil-invoke", fmt.Sprintf("(not (= %s ty.nil))", recv.S), pos)
		}
	}
	if key == "sort.Slice" {
		return e.sortSlice(in, cc, args)
	}
	if key != "" {
		con := e.V.CS.ByKey[key]
		if con == nil {
			// uncontracted callee: havoc everything it could touch
			res := mkRes("r." + shortKey(key))
			callee := cc.StaticCallee()
			inRepo := callee != nil && e.V.P.repoPkg(callee) != nil
			mc, _ := cc.Value.(*ssa.MakeClosure)
			if inRepo && e.canInlineWith(callee, key, mc) {
				if r, ok := e.inlineWith(callee, key, args, pos, mc); ok {
					return r
				}
			}
			if inRepo {
				e.nonNilArgs(callee, args, "true", shortKey(key), pos)
				// no contract: results are unknown; the heap keys it may write
				// are inferred from its code (and its callees') by type safety
				preH := e.curHeap.clone()
				defer func() { e.preserveLocals(preH, e.curHeap) }()
				ws := e.V.inferredWrites(callee)
				if ws["*"] {
					e.havocAllHeaps()
				} else {
					for _, k := range sortedBoolKeys(ws) {
						if h := U.heapByKey(k); h != nil {
							e.curHeap[k] = e.heapVersion(h)
						} else if h := U.heaps[k]; h != nil {
							e.curHeap[k] = e.heapVersion(h)
						}
					}
				}
				e.note("call of uncontracted repo function " + key + ": result havocked, written heaps inferred from its code")
			} else {
				e.imprecise = append(e.imprecise, "call of external function without contract "+key+" (results havocked, heap assumed untouched)")
			}
			e.V.missing[key]++
			return res
		}
		res := e.applyContract(con, args, mkRes("r."+shortKey(key)), pos, "true", shortKey(key))
		e.fmtSpecial(key, cc, args, res)
		return res
	}
	// indirect call through a function value
	f := e.get(cc.Value)
	if f.Sort != "Fn" {
		e.unsupported(in, "call through non-function value")
		return mkRes("r.indirect")
	}
	e.safe("nilcall", fmt.Sprintf("(not (= %s fn.nil))", f.S), pos)
	cands := e.V.candidates(cc.Signature())
	res := mkRes("r.indirect")
	// the callee must be one of the known constructors (closed world, A-FN)
	var isKnown []string
	for _, c := range cands {
		isKnown = append(isKnown, fmt.Sprintf("((_ is %s) %s)", c.Sym, f.S))
	}
	known := "false"
	if len(isKnown) == 1 {
		known = isKnown[0]
	} else if len(isKnown) > 1 {
		known = "(or " + strings.Join(isKnown, " ") + ")"
	}
	e.safe("unknown-callee", known, pos)
	// heap havoc for the union of assigns
	pre := e.curHeap.clone()
	union := map[string]bool{}
	for _, c := range cands {
		cn := e.V.CS.ByKey[c.Key]
		if cn == nil {
			// no contract: the heaps it may write are inferred from its code
			for k := range e.V.inferredWrites(c.Fn) {
				union[k] = true
			}
			continue
		}
		if !cn.HasAssigns {
			union["*"] = true
			continue
		}
		for _, a := range cn.Assigns {
			union[a] = true
		}
	}
	if union["*"] {
		e.havocAllHeaps()
	} else {
		for _, k := range sortedBoolKeys(union) {
			if i := strings.Index(k, "@"); i >= 0 {
				// located entry: sound over-approximation across candidates is a
				// store at the location evaluated in the candidate's own
				// binding; all our candidates share parameter names, so use the
				// first candidate declaring it.
				for _, c := range cands {
					cn := e.V.CS.ByKey[c.Key]
					if cn == nil {
						continue
					}
					has := false
					for _, a := range cn.Assigns {
						if a == k {
							has = true
						}
					}
					if has {
						extra := map[string]Term{}
						for i, fv := range c.Fn.FreeVars {
							extra[fv.Name()] = Term{fmt.Sprintf("(%s.c%d %s)", c.Sym, i, f.S), c.Caps[i], c.CapTs[i]}
						}
						e.havocLocated(cn, k[:i], k[i+1:], args, extra, pre)
						break
					}
				}
				continue
			}
			h := U.heapByKey(k)
			if h != nil {
				e.curHeap[k] = e.heapVersion(h)
			}
		}
	}
	post := e.curHeap.clone()
	e.preserveLocals(pre, post)
	for _, c := range cands {
		cn := e.V.CS.ByKey[c.Key]
		guard := fmt.Sprintf("((_ is %s) %s)", c.Sym, f.S)
		if cn == nil {
			e.note("indirect call candidate without contract (result havocked, written heaps inferred): " + c.Key)
			e.nonNilArgs(c.Fn, args, guard, shortKey(c.Key), pos)
			continue
		}
		// captures
		extra := map[string]Term{}
		for i, fv := range c.Fn.FreeVars {
			extra[fv.Name()] = Term{fmt.Sprintf("(%s.c%d %s)", c.Sym, i, f.S), c.Caps[i], c.CapTs[i]}
		}
		extra["self"] = f
		e.applyContractAt(cn, args, res, pos, guard, shortKey(c.Key), pre, post, extra)
		// frame for this candidate: keys in union but not in its assigns are unchanged
		if !union["*"] {
			mine := map[string]bool{}
			for _, a := range cn.Assigns {
				mine[a] = true
			}
			for _, k := range sortedBoolKeys(union) {
				if !mine[k] {
					if i := strings.Index(k, "@"); i >= 0 {
						k = k[:i]
						skip := false
						for m := range mine {
							if strings.HasPrefix(m, k+"@") || m == k {
								skip = true
							}
						}
						if skip {
							continue
						}
					}
					h := U.heapByKey(k)
					e.assert(fmt.Sprintf("(=> (and %s %s) (= %s %s))", e.curReach, guard, e.heapTermIn(post)(h), e.heapTermIn(pre)(h)))
				}
			}
		}
	}
	return res
}

// havocLocated: the callee may change heap key only at the location loc (an
// expression over its parameters): H' = store(H, loc, fresh).
func (e *fnEnc) havocLocated(con *Contract, key, loc string, args []Term, extra map[string]Term, pre heapState) {
	h := e.U.heapByKey(key)
	if h == nil {
		e.fail("%s:%d: assigns: unknown heap %q", con.File, con.Line, key)
	}
	env := e.baseEnv()
	env.pkg = e.V.pkgOfKey(con.Key, e.V.P.typesPkg(e.fn))
	vars := map[string]Term{}
	for k, v := range extra {
		vars[k] = v
	}
	for i, p := range con.Params {
		if i < len(args) {
			vars[p] = args[i]
		}
	}
	env.vars = vars
	env.heap = pre
	env.old = pre
	lx, err := parseCExpr(loc)
	if err != nil {
		e.fail("%s:%d: assigns location: %v", con.File, con.Line, err)
	}
	lt, err := env.tr(lx, "Int")
	if err != nil {
		e.fail("%s:%d: assigns location: %v", con.File, con.Line, err)
	}
	if e.lastPre == nil {
		e.lastPre = map[string]string{}
	}
	e.lastPre[h.Key] = e.curHeapTerm(h)
	nv := e.fresh("hv.loc", h.Elem)
	e.typeFacts(Term{nv, h.Elem, nil}, "")
	cur := e.curHeapTerm(h)
	ver := e.heapVersion(h)
	e.assert(fmt.Sprintf("(= %s (store %s %s %s))", ver, cur, lt.S, nv))
	e.curHeap[h.Key] = ver
}

func shortKey(k string) string {
	if i := strings.Index(k, "."); i >= 0 {
		return k[i+1:]
	}
	return k
}

func (e *fnEnc) havocAllHeaps() {
	U := e.U
	for _, k := range append([]string(nil), U.heapO...) {
		e.curHeap[k] = e.heapVersion(U.heaps[k])
	}
	e.note("a call havocked every heap known so far")
}

// applyContract handles a direct call: frame + pre obligations + post assumptions.
func (e *fnEnc) applyContract(con *Contract, args []Term, res []Term, pos token.Pos, guard, name string) []Term {
	U := e.U
	pre := e.curHeap.clone()
	if con.HasAssigns {
		for _, a := range con.Assigns {
			if a == "*" {
				e.havocAllHeaps()
				break
			}
			if i := strings.Index(a, "@"); i >= 0 {
				e.havocLocated(con, a[:i], a[i+1:], args, nil, pre)
				continue
			}
			h := U.heapByKey(a)
			if h == nil {
				e.fail("%s:%d: assigns: unknown heap %q", con.File, con.Line, a)
			}
			e.curHeap[a] = e.heapVersion(h)
		}
	} else if !con.External {
		// no assigns clause: the heap keys the callee's code can write (by type safety)
		if f := e.V.P.Funcs[con.Key]; f != nil {
			ws := e.V.inferredWrites(f)
			if ws["*"] {
				e.havocAllHeaps()
			} else {
				for _, k := range sortedBoolKeys(ws) {
					h := U.heapByKey(k)
					if h == nil {
						h = U.heaps[k]
					}
					if h != nil {
						e.curHeap[k] = e.heapVersion(h)
					}
				}
			}
		} else {
			e.havocAllHeaps()
		}
	}
	post := e.curHeap.clone()
	e.preserveLocals(pre, post)
	e.applyContractAt(con, args, res, pos, guard, name, pre, post, nil)
	return res
}

func (e *fnEnc) applyContractAt(con *Contract, args []Term, res []Term, pos token.Pos, guard, name string, pre, post heapState, extra map[string]Term) {
	if len(con.Params) != len(args) {
		e.fail("%s:%d: contract %s binds %d parameters, call passes %d", con.File, con.Line, con.Key, len(con.Params), len(args))
	}
	env := e.baseEnv()
	env.pkg = e.V.pkgOfKey(con.Key, e.V.P.typesPkg(e.fn))
	vars := map[string]Term{}
	for k, v := range extra {
		vars[k] = v
	}
	for i, p := range con.Params {
		vars[p] = args[i]
	}
	env.vars = vars
	env.heap = pre
	env.old = pre
	for _, r := range con.Requires {
		t, err := env.tr(r.Expr, "Bool")
		if err != nil {
			e.fail("%s:%d: requires of %s: %v", r.File, r.Line, con.Key, err)
		}
		g := e.curReach
		if guard != "true" {
			g = fmt.Sprintf("(and %s %s)", e.curReach, guard)
		}
		if !(con.External && e.con != nil && e.con.MayPanic) {
			o := e.oblig("pre", name+":"+clauseName(r), r.Props, g, t.S, pos)
			o.Clause = r
		}
		// continue only if it held
		nr := e.fresh("reach", "Bool")
		if guard == "true" {
			e.assert(fmt.Sprintf("(= %s (and %s %s))", nr, e.curReach, t.S))
		} else {
			e.assert(fmt.Sprintf("(= %s (and %s (=> %s %s)))", nr, e.curReach, guard, t.S))
		}
		e.curReach = nr
	}
	// recursion variant
	if con.Decreases != nil && e.con != nil && e.con.Decreases != nil && e.V.sameSCC(e.key, con.Key) {
		callerEnv := e.baseEnv()
		callerEnv.vars = e.params
		callerEnv.heap = heapState{}
		callerEnv.old = heapState{}
		v0, err0 := callerEnv.tr(e.con.Decreases.Expr, "Int")
		v1, err1 := env.tr(con.Decreases.Expr, "Int")
		if err0 != nil || err1 != nil {
			e.fail("decreases of %s/%s: %v %v", e.key, con.Key, err0, err1)
		}
		g := e.curReach
		if guard != "true" {
			g = fmt.Sprintf("(and %s %s)", e.curReach, guard)
		}
		o := e.oblig("dec", "call:"+name, con.Decreases.Props, g, fmt.Sprintf("(and (>= %s 0) (< %s %s))", v0.S, v1.S, v0.S), pos)
		o.Clause = con.Decreases
	}
	penv := *env
	pv := map[string]Term{}
	for k, v := range vars {
		pv[k] = v
	}
	for i, r := range con.Results {
		if i < len(res) {
			pv[r] = res[i]
		}
	}
	penv.vars = pv
	penv.heap = post
	penv.old = pre
	for _, c := range con.Ensures {
		t, err := penv.tr(c.Expr, "Bool")
		if err != nil {
			e.fail("%s:%d: ensures of %s: %v", c.File, c.Line, con.Key, err)
		}
		g := e.curReach
		if guard != "true" {
			g = fmt.Sprintf("(and %s %s)", e.curReach, guard)
		}
		e.assert(fmt.Sprintf("(=> %s %s)", g, t.S))
	}
}

func (V *Verifier) pkgOfKey(key string, def *types.Package) *types.Package {
	p := strings.SplitN(key, ".", 2)[0]
	switch p {
	case "bexpr":
		return V.P.Bexpr.Pkg
	case "grammar":
		return V.P.Grammar.Pkg
	}
	return def
}

// sameSCC: conservative — both functions are recursive-capable in the same package set.
func (V *Verifier) sameSCC(a, b string) bool {
	return V.reach(a, b) && V.reach(b, a)
}

func (V *Verifier) reach(from, to string) bool {
	seen := map[string]bool{}
	var dfs func(k string) bool
	dfs = func(k string) bool {
		if seen[k] {
			return false
		}
		seen[k] = true
		for c := range V.callGraph[k] {
			if c == to || dfs(c) {
				return true
			}
		}
		return false
	}
	return dfs(from)
}

func (e *fnEnc) builtin(in ssa.Instruction, b *ssa.Builtin, cc *ssa.CallCommon) []Term {
	U := e.U
	v, _ := in.(ssa.Value)
	switch b.Name() {
	case "len":
		x := e.get(cc.Args[0])
		switch {
		case x.Sort == "Str":
			return []Term{{fmt.Sprintf("(s.len %s)", x.S), "Int", types.Typ[types.Int]}}
		case strings.HasPrefix(x.Sort, "Sl."):
			return []Term{{fmt.Sprintf("(%s.len %s)", x.Sort, x.S), "Int", types.Typ[types.Int]}}
		default:
			r := e.havocValue(v, "len")
			e.assert(fmt.Sprintf("(>= %s 0)", r[0].S))
			return r
		}
	case "cap":
		x := e.get(cc.Args[0])
		r := e.havocValue(v, "cap")
		if strings.HasPrefix(x.Sort, "Sl.") {
			e.assert(fmt.Sprintf("(>= %s (%s.len %s))", r[0].S, x.Sort, x.S))
		}
		return r
	case "append":
		s := e.get(cc.Args[0])
		t := e.get(cc.Args[1])
		if s.Sort == "?nil" {
			s = Term{t.Sort + ".nil", t.Sort, nil}
		}
		if t.Sort == "Str" { // append([]byte, string...)
			t = Term{fmt.Sprintf("(s.tobytes %s)", t.S), s.Sort, nil}
		}
		if s.Sort != t.Sort {
			e.unsupported(in, "append across sorts")
			return e.havocValue(v, "append")
		}
		name := e.fresh("app", s.Sort)
		if elems, isLit := e.lits[t.S]; isLit {
			term := s.S
			for j, el := range elems {
				term = fmt.Sprintf("(%s.snoc %s %s)", s.Sort, term, el)
				e.assert(fmt.Sprintf("(= (%s.at %s (+ (%s.len %s) %d)) %s)", s.Sort, name, s.Sort, s.S, j, el))
			}
			e.assert(fmt.Sprintf("(= %s %s)", name, term))
		} else {
			e.assert(fmt.Sprintf("(= %s (%s.cat %s %s))", name, s.Sort, s.S, t.S))
		}
		e.assert(fmt.Sprintf("(= (%s.len %s) (+ (%s.len %s) (%s.len %s)))", s.Sort, name, s.Sort, s.S, s.Sort, t.S))
		return []Term{{name, s.Sort, v.Type()}}
	case "copy":
		e.unsupported(in, "copy")
		return e.havocValue(v, "copy")
	case "recover":
		if e.inlDepth > 0 || !e.V.isDeferredLiteral(e.fn) {
			// Go: recover() stops a panic only when it is called directly by the
			// deferred function. One call deeper (an inlined helper), or in a
			// function that is not deferred at all, it returns nil and the panic
			// goes on.
			e.note("recover() not called directly by a deferred function: it returns nil")
			if v == nil {
				return nil
			}
			return []Term{{S: "nilAny", Sort: "Any", T: v.Type()}}
		}
		r := e.havocValue(v, "recover")
		// `recovered` in this function's contract: did recover() return non-nil?
		e.params["recovered"] = Term{S: fmt.Sprintf("(not (= %s nilAny))", r[0].S), Sort: "Bool"}
		return r
	case "delete":
		e.note("delete on map abstracted")
		return nil
	case "print", "println":
		return nil
	}
	e.unsupported(in, "builtin "+b.Name())
	if v != nil {
		return e.havocValue(v, "builtin")
	}
	_ = U
	return nil
}

// sortSlice models sort.Slice(x, less): x is a slice loaded from a local
// variable; the call permutes its elements in place. Our slices are values,
// so the variable is re-assigned a fresh slice s' = sortedBy(s, less) that is
// a permutation of s (A-SORT: sort.Slice sorts by less).
func (e *fnEnc) sortSlice(in ssa.Instruction, cc *ssa.CallCommon, args []Term) []Term {
	mi, ok := cc.Args[0].(*ssa.MakeInterface)
	var ld *ssa.UnOp
	if ok {
		ld, ok = mi.X.(*ssa.UnOp)
	}
	if !ok || ld.Op != token.MUL {
		e.unsupported(in, "sort.Slice on a slice that is not read from a local variable")
		return nil
	}
	d := e.descOf(ld.X)
	if d == nil || (d.kind != aDeref && d.kind != aHeapField) {
		e.unsupported(in, "sort.Slice on an untracked slice variable")
		return nil
	}
	s := e.get(ld)
	less := args[1]
	srt := s.Sort
	sym := "sortedBy." + sortTag(srt)
	if _, ok := e.U.Sigs[sym]; !ok {
		e.U.Sigs[sym] = &Sig{Name: sym, Args: []string{srt, "Fn"}, Res: srt}
		e.U.extra = append(e.U.extra, fmt.Sprintf("(declare-fun %s (%s Fn) %s)", sym, srt, srt))
	}
	ns := e.fresh("sorted", srt)
	pidx := fmt.Sprintf("pidx!%d", e.n)
	e.decls = append(e.decls, fmt.Sprintf("(declare-fun %s (Int) Int)", pidx))
	e.assert(fmt.Sprintf("(= %s (%s %s %s))", ns, sym, s.S, less.S))
	e.assert(fmt.Sprintf("(= (%s.len %s) (%s.len %s))", srt, ns, srt, s.S))
	e.assert(fmt.Sprintf("(forall ((i Int)) (! (=> (and (<= 0 i) (< i (%[1]s.len %[2]s))) (and (<= 0 (%[4]s i)) (< (%[4]s i) (%[1]s.len %[3]s)) (= (%[1]s.at %[2]s i) (%[1]s.at %[3]s (%[4]s i))))) :pattern ((%[1]s.at %[2]s i))))", srt, ns, s.S, pidx))
	e.storeDesc(d, Term{ns, srt, s.T})
	e.note("sort.Slice modelled as re-assignment of the sorted permutation (A-SORT)")
	return nil
}

// fmtSpecial adds what bxv derives from a constant format string: the
// expansion of Sprintf, and the %w wrapping of Errorf (A-FMT).
func (e *fnEnc) fmtSpecial(key string, cc *ssa.CallCommon, args []Term, res []Term) {
	switch key {
	case "fmt.Fprintf":
		h := e.U.heaps["ghost.out"]
		if f, ok := constFormat(cc.Args[1]); ok && h != nil {
			if t, ok := e.expandFormat(f, args[2].S); ok {
				// the havocked cell is the old content followed by the expansion
				cur := e.curHeapTerm(h)
				e.assert(fmt.Sprintf("(=> %s (= (select %s (wid %s)) (s.cat (select %s (wid %s)) %s)))", e.curReach, cur, args[0].S, e.lastPre[h.Key], args[0].S, t))
				return
			}
		}
		e.note("fmt.Fprintf with a non-constant or unsupported format: output abstracted")
	case "fmt.Sprintf":
		if f, ok := constFormat(cc.Args[0]); ok {
			if t, ok := e.expandFormat(f, args[1].S); ok {
				e.assert(fmt.Sprintf("(=> %s (= %s %s))", e.curReach, res[0].S, t))
				return
			}
		}
		e.note("fmt.Sprintf with a non-constant or unsupported format: result abstracted")
	case "fmt.Errorf":
		f, ok := constFormat(cc.Args[0])
		if !ok {
			e.note("fmt.Errorf with a non-constant format: wrapping abstracted")
			return
		}
		pieces, ok := parseFormat(f)
		if !ok {
			e.note("fmt.Errorf format not understood: wrapping abstracted")
			return
		}
		vals := e.litVals[args[1].S]
		var nf, syn []string
		for _, p := range pieces {
			if p.verb == 'w' && p.arg < len(vals) {
				a := e.get(vals[p.arg])
				if a.Sort == "Any" {
					nf = append(nf, fmt.Sprintf("(isNotFound %s)", a.S))
					syn = append(syn, fmt.Sprintf("(isSyntax %s)", a.S))
				}
			}
		}
		or := func(xs []string) string {
			switch len(xs) {
			case 0:
				return "false"
			case 1:
				return xs[0]
			}
			return "(or " + strings.Join(xs, " ") + ")"
		}
		e.assert(fmt.Sprintf("(=> %s (and (= (isNotFound %s) %s) (= (isSyntax %s) %s)))", e.curReach, res[0].S, or(nf), res[0].S, or(syn)))
	}
}

// nonNilArgs: the implicit contract of an uncontracted repo function is that
// its pointer parameters are not nil (its body is verified under that
// assumption when it is swept); this is the caller's side of it.
func (e *fnEnc) nonNilArgs(callee *ssa.Function, args []Term, guard, name string, pos token.Pos) {
	if callee == nil || (e.con != nil && e.con.MayPanic) {
		return
	}
	for i, p := range callee.Params {
		if i >= len(args) {
			break
		}
		if _, isPtr := p.Type().Underlying().(*types.Pointer); !isPtr || args[i].Sort != "Int" {
			continue
		}
		g := e.curReach
		if guard != "true" {
			g = fmt.Sprintf("(and %s %s)", e.curReach, guard)
		}
		e.oblig("pre", name+":nonnil:"+p.Name(), nil, g, fmt.Sprintf("(not (= %s 0))", args[i].S), pos)
	}
}

// isDeferredLiteral: fn is a function literal whose closure value is the
// operand of a defer statement of its parent (the only place from which a
// recover() inside fn can stop a panic).
func (V *Verifier) isDeferredLiteral(fn *ssa.Function) bool {
	parent := fn.Parent()
	if parent == nil {
		// a declared function may be deferred by name from anywhere; we only
		// model literals, so be conservative for anything else that is deferred
		// directly: look for `defer fn(...)` in the repo
		for _, k := range sortedFuncKeys(V.P.Funcs) {
			for _, b := range V.P.Funcs[k].Blocks {
				for _, in := range b.Instrs {
					if d, ok := in.(*ssa.Defer); ok && d.Call.StaticCallee() == fn {
						return true
					}
				}
			}
		}
		return false
	}
	for _, b := range parent.Blocks {
		for _, in := range b.Instrs {
			d, ok := in.(*ssa.Defer)
			if !ok {
				continue
			}
			if mc, ok := d.Call.Value.(*ssa.MakeClosure); ok && mc.Fn == ssa.Value(fn) {
				return true
			}
			if f, ok := d.Call.Value.(*ssa.Function); ok && f == fn {
				return true
			}
		}
	}
	return false
}
