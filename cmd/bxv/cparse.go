package main

import (
	"fmt"
	"os"
	"path/filepath"
	"regexp"
	"sort"
	"strconv"
	"strings"
)

// ---------------------------------------------------------------------------
// Contract expression AST

type CExpr struct {
	Op    string // id num str call field index slice unop binop forall exists tyarg
	Name  string // id name / field name / operator / callee
	Args  []*CExpr
	Ty    string      // raw Go type text for tag[T] / box[T] / unbox[T] / is[T]
	BVars [][2]string // bound variables (name, sort)
}

func (e *CExpr) String() string {
	switch e.Op {
	case "id", "num":
		return e.Name
	case "str":
		return strconv.Quote(e.Name)
	case "field":
		return e.Args[0].String() + "." + e.Name
	case "call":
		a := make([]string, len(e.Args))
		for i, x := range e.Args {
			a[i] = x.String()
		}
		return e.Name + "(" + strings.Join(a, ", ") + ")"
	case "tyarg":
		a := make([]string, len(e.Args))
		for i, x := range e.Args {
			a[i] = x.String()
		}
		if len(a) == 0 {
			return e.Name + "[" + e.Ty + "]"
		}
		return e.Name + "[" + e.Ty + "](" + strings.Join(a, ", ") + ")"
	case "index":
		return e.Args[0].String() + "[" + e.Args[1].String() + "]"
	case "slice":
		lo, hi := "", ""
		if e.Args[1] != nil {
			lo = e.Args[1].String()
		}
		if e.Args[2] != nil {
			hi = e.Args[2].String()
		}
		return e.Args[0].String() + "[" + lo + ":" + hi + "]"
	case "unop":
		return e.Name + e.Args[0].String()
	case "binop":
		return "(" + e.Args[0].String() + " " + e.Name + " " + e.Args[1].String() + ")"
	case "forall", "exists":
		vs := make([]string, len(e.BVars))
		for i, v := range e.BVars {
			vs[i] = v[0] + " " + v[1]
		}
		return "(" + e.Op + " " + strings.Join(vs, ", ") + " :: " + e.Args[0].String() + ")"
	}
	return "?"
}

type ctok struct {
	k string // id num str op eof
	s string
}

func clex(src string) ([]ctok, error) {
	var out []ctok
	i := 0
	ops := []string{"<==>", "==>", "::", "&&", "||", "==", "!=", "<=", ">=", "++", "(", ")", "[", "]", ",", ".", "+", "-", "*", "/", "%", "!", "<", ">", ":"}
	for i < len(src) {
		c := src[i]
		switch {
		case c == ' ' || c == '\t' || c == '\n' || c == '\r':
			i++
		case c == '"' || c == '`':
			j := i + 1
			for j < len(src) && src[j] != c {
				if c == '"' && src[j] == '\\' {
					j++
				}
				j++
			}
			if j >= len(src) {
				return nil, fmt.Errorf("unterminated string in %q", src)
			}
			raw := src[i : j+1]
			v, err := strconv.Unquote(raw)
			if err != nil {
				return nil, fmt.Errorf("bad string %s: %v", raw, err)
			}
			out = append(out, ctok{"str", v})
			i = j + 1
		case c >= '0' && c <= '9':
			j := i
			for j < len(src) && (src[j] >= '0' && src[j] <= '9' || src[j] == 'x' || src[j] >= 'a' && src[j] <= 'f' || src[j] >= 'A' && src[j] <= 'F' || src[j] == '_') {
				j++
			}
			out = append(out, ctok{"num", src[i:j]})
			i = j
		case c == '_' || c >= 'a' && c <= 'z' || c >= 'A' && c <= 'Z':
			j := i
			for j < len(src) && (src[j] == '_' || src[j] == '$' || src[j] == '\'' || src[j] >= 'a' && src[j] <= 'z' || src[j] >= 'A' && src[j] <= 'Z' || src[j] >= '0' && src[j] <= '9') {
				j++
			}
			out = append(out, ctok{"id", src[i:j]})
			i = j
		default:
			matched := false
			for _, op := range ops {
				if strings.HasPrefix(src[i:], op) {
					out = append(out, ctok{"op", op})
					i += len(op)
					matched = true
					break
				}
			}
			if !matched {
				return nil, fmt.Errorf("bad character %q in %q", c, src)
			}
		}
	}
	out = append(out, ctok{"eof", ""})
	return out, nil
}

type cparser struct {
	toks []ctok
	p    int
	src  string
}

func parseCExpr(src string) (*CExpr, error) {
	toks, err := clex(src)
	if err != nil {
		return nil, err
	}
	ps := &cparser{toks: toks, src: src}
	e, err := ps.expr(0)
	if err != nil {
		return nil, err
	}
	if ps.peek().k != "eof" {
		return nil, fmt.Errorf("trailing tokens at %q in %q", ps.peek().s, src)
	}
	return e, nil
}

func (ps *cparser) peek() ctok { return ps.toks[ps.p] }
func (ps *cparser) next() ctok { t := ps.toks[ps.p]; ps.p++; return t }
func (ps *cparser) isOp(s string) bool {
	t := ps.peek()
	return t.k == "op" && t.s == s
}
func (ps *cparser) expect(s string) error {
	if !ps.isOp(s) {
		return fmt.Errorf("expected %q, got %q in %q", s, ps.peek().s, ps.src)
	}
	ps.p++
	return nil
}

var binPrec = map[string]int{
	"<==>": 1, "==>": 2, "||": 3, "&&": 4,
	"==": 5, "!=": 5, "<": 5, "<=": 5, ">": 5, ">=": 5,
	"+": 6, "-": 6, "++": 6, "*": 7, "/": 7, "%": 7,
}

func (ps *cparser) expr(minPrec int) (*CExpr, error) {
	// quantifiers bind as far right as possible
	if t := ps.peek(); t.k == "id" && (t.s == "forall" || t.s == "exists") {
		ps.p++
		q := &CExpr{Op: t.s}
		for {
			n := ps.next()
			if n.k != "id" {
				return nil, fmt.Errorf("bad bound var in %q", ps.src)
			}
			// sort: identifier possibly dotted
			sortName := ""
			for {
				s := ps.next()
				if s.k != "id" {
					return nil, fmt.Errorf("bad sort in quantifier in %q", ps.src)
				}
				sortName += s.s
				if ps.isOp(".") {
					ps.p++
					sortName += "."
					continue
				}
				break
			}
			q.BVars = append(q.BVars, [2]string{n.s, sortName})
			if ps.isOp(",") {
				ps.p++
				continue
			}
			break
		}
		if err := ps.expect("::"); err != nil {
			return nil, err
		}
		body, err := ps.expr(0)
		if err != nil {
			return nil, err
		}
		q.Args = []*CExpr{body}
		return q, nil
	}
	lhs, err := ps.unary()
	if err != nil {
		return nil, err
	}
	for {
		t := ps.peek()
		if t.k != "op" {
			return lhs, nil
		}
		prec, ok := binPrec[t.s]
		if !ok || prec < minPrec {
			return lhs, nil
		}
		ps.p++
		nextMin := prec + 1
		if t.s == "==>" {
			nextMin = prec // right assoc
		}
		rhs, err := ps.expr(nextMin)
		if err != nil {
			return nil, err
		}
		lhs = &CExpr{Op: "binop", Name: t.s, Args: []*CExpr{lhs, rhs}}
	}
}

func (ps *cparser) unary() (*CExpr, error) {
	if ps.isOp("!") || ps.isOp("-") {
		op := ps.next().s
		x, err := ps.unary()
		if err != nil {
			return nil, err
		}
		return &CExpr{Op: "unop", Name: op, Args: []*CExpr{x}}, nil
	}
	return ps.postfix()
}

var tyArgFns = map[string]bool{"tag": true, "box": true, "unbox": true, "is": true, "zero": true, "impl": true}

func (ps *cparser) postfix() (*CExpr, error) {
	t := ps.next()
	var e *CExpr
	switch t.k {
	case "num":
		e = &CExpr{Op: "num", Name: strings.ReplaceAll(t.s, "_", "")}
	case "str":
		e = &CExpr{Op: "str", Name: t.s}
	case "id":
		if tyArgFns[t.s] && ps.isOp("[") {
			// raw type argument up to the matching ]
			ps.p++
			depth := 1
			var parts []string
			for depth > 0 {
				x := ps.next()
				if x.k == "eof" {
					return nil, fmt.Errorf("unterminated type argument in %q", ps.src)
				}
				if x.k == "op" && x.s == "[" {
					depth++
				}
				if x.k == "op" && x.s == "]" {
					depth--
					if depth == 0 {
						break
					}
				}
				parts = append(parts, x.s)
			}
			e = &CExpr{Op: "tyarg", Name: t.s, Ty: strings.Join(parts, "")}
			if ps.isOp("(") {
				ps.p++
				args, err := ps.args()
				if err != nil {
					return nil, err
				}
				e.Args = args
			}
		} else {
			e = &CExpr{Op: "id", Name: t.s}
		}
	case "op":
		if t.s == "(" {
			x, err := ps.expr(0)
			if err != nil {
				return nil, err
			}
			if err := ps.expect(")"); err != nil {
				return nil, err
			}
			e = x
		} else {
			return nil, fmt.Errorf("unexpected %q in %q", t.s, ps.src)
		}
	default:
		return nil, fmt.Errorf("unexpected end of %q", ps.src)
	}
	for {
		switch {
		case ps.isOp("."):
			ps.p++
			n := ps.next()
			if n.k != "id" && n.k != "num" {
				return nil, fmt.Errorf("bad field in %q", ps.src)
			}
			e = &CExpr{Op: "field", Name: n.s, Args: []*CExpr{e}}
		case ps.isOp("("):
			ps.p++
			args, err := ps.args()
			if err != nil {
				return nil, err
			}
			name := flatName(e)
			if name == "" {
				return nil, fmt.Errorf("call of non-name in %q", ps.src)
			}
			e = &CExpr{Op: "call", Name: name, Args: args}
		case ps.isOp("["):
			ps.p++
			var lo, hi *CExpr
			var err error
			if !ps.isOp(":") {
				lo, err = ps.expr(0)
				if err != nil {
					return nil, err
				}
			}
			if ps.isOp(":") {
				ps.p++
				if !ps.isOp("]") {
					hi, err = ps.expr(0)
					if err != nil {
						return nil, err
					}
				}
				if err := ps.expect("]"); err != nil {
					return nil, err
				}
				e = &CExpr{Op: "slice", Args: []*CExpr{e, lo, hi}}
			} else {
				if err := ps.expect("]"); err != nil {
					return nil, err
				}
				e = &CExpr{Op: "index", Args: []*CExpr{e, lo}}
			}
		default:
			return e, nil
		}
	}
}

func (ps *cparser) args() ([]*CExpr, error) {
	var args []*CExpr
	if ps.isOp(")") {
		ps.p++
		return args, nil
	}
	for {
		a, err := ps.expr(0)
		if err != nil {
			return nil, err
		}
		args = append(args, a)
		if ps.isOp(",") {
			ps.p++
			continue
		}
		if err := ps.expect(")"); err != nil {
			return nil, err
		}
		return args, nil
	}
}

// flatName turns id / field chains into a dotted name.
func flatName(e *CExpr) string {
	switch e.Op {
	case "id":
		return e.Name
	case "field":
		b := flatName(e.Args[0])
		if b == "" {
			return ""
		}
		return b + "." + e.Name
	}
	return ""
}

// ---------------------------------------------------------------------------
// Contracts

type Clause struct {
	Kind  string // requires ensures invariant decreases
	Props []string
	Label string
	Text  string
	Expr  *CExpr
	File  string
	Line  int
}

type LoopContract struct {
	Ordinal    int
	Invariants []*Clause
	Decreases  *Clause
}

type Contract struct {
	Key        string
	External   bool
	Trusted    bool // body not verified here (stated assumption)
	MayPanic   bool // explicit panic statements are allowed
	Fresh      bool // result is memory allocated by the call
	DeadReturns int // number of return statements the contract declares unreachable
	Params     []string
	Results    []string
	Requires   []*Clause
	Ensures    []*Clause
	EnsuresRecovered []*Clause // must hold when the function returns through its recover block
	Assumes    []*Clause // assumed at entry when verifying the body; not an obligation at call sites
	PanicsOnlyIf []*Clause // condition that must hold at every explicit panic statement
	Decreases  *Clause
	Assigns    []string // heap keys ("grammar.MatchValue.Converted"), "*" = everything
	HasAssigns bool
	Loops      map[int]*LoopContract
	File       string
	Line       int
	Props      []string // properties of the function-level tag (func[Cxx] ...)
}

type Lemma struct {
	Name  string
	Props []string
	Vars  [][2]string // name, sort
	Hyps  []*Clause
	Concl []*Clause
	Fuel  int
	Opaque []string // variables whose spec-function applications are not unfolded
	File  string
	Line  int
}

type ContractSet struct {
	ByKey  map[string]*Contract
	Lemmas []*Lemma
	Rules  map[string]*RuleContract // contracts on the rules of the grammar table (typing.go)
	Files  []string
}

var clauseHead = regexp.MustCompile(`^(func|external|lemma|rule|yields|requires|ensures_recovered|ensures|assume|panics_only_if|invariant|decreases|assigns|loop|trusted|may_panic|fresh|dead_returns|var|hyp|concl|fuel|opaque)\b(\[[^\]]*\])?\s*(.*)$`)

func loadContracts(files []string) (*ContractSet, error) {
	cs := &ContractSet{ByKey: map[string]*Contract{}, Rules: map[string]*RuleContract{}}
	for _, f := range files {
		b, err := os.ReadFile(f)
		if err != nil {
			return nil, err
		}
		cs.Files = append(cs.Files, f)
		if err := cs.parseFile(f, string(b)); err != nil {
			return nil, err
		}
	}
	return cs, nil
}

type rawClause struct {
	head, tag, rest string
	line            int
}

func (cs *ContractSet) parseFile(file, src string) error {
	// default package qualifier from the Go package clause, if any
	defPkg := ""
	if m := regexp.MustCompile(`(?m)^package\s+(\w+)`).FindStringSubmatch(src); m != nil {
		defPkg = m[1]
	}
	var raws []*rawClause
	isSpec := strings.HasSuffix(file, ".spec")
	for i, line := range strings.Split(src, "\n") {
		var body string
		t := strings.TrimSpace(line)
		if isSpec {
			if strings.HasPrefix(t, "#") || t == "" {
				continue
			}
			// strip trailing comment
			body = t
		} else {
			if !strings.HasPrefix(t, "//@") {
				continue
			}
			body = strings.TrimSpace(t[3:])
			if body == "" {
				continue
			}
		}
		if idx := strings.Index(body, " //"); idx >= 0 && !strings.Contains(body[idx:], "\"") {
			body = strings.TrimSpace(body[:idx])
		}
		if m := clauseHead.FindStringSubmatch(body); m != nil {
			raws = append(raws, &rawClause{head: m[1], tag: strings.Trim(m[2], "[]"), rest: strings.TrimSpace(m[3]), line: i + 1})
		} else if len(raws) > 0 {
			raws[len(raws)-1].rest += " " + body
		} else {
			return fmt.Errorf("%s:%d: clause continuation without clause", file, i+1)
		}
	}
	var cur *Contract
	var curLoop *LoopContract
	var curLemma *Lemma
	var curRule *RuleContract
	hdr := regexp.MustCompile(`^([\w.$*]+)\s*\(([^)]*)\)\s*(?:\(([^)]*)\))?\s*$`)
	for _, r := range raws {
		mk := func(kind string) (*Clause, error) {
			text := r.rest
			label := ""
			if m := regexp.MustCompile(`^([A-Za-z_][\w\-]*):\s+(.*)$`).FindStringSubmatch(text); m != nil {
				label, text = m[1], m[2]
			}
			ex, err := parseCExpr(text)
			if err != nil {
				return nil, fmt.Errorf("%s:%d: %v", file, r.line, err)
			}
			c := &Clause{Kind: kind, Label: label, Text: text, Expr: ex, File: file, Line: r.line}
			if r.tag != "" {
				for _, p := range strings.Split(r.tag, ",") {
					c.Props = append(c.Props, strings.TrimSpace(p))
				}
			}
			return c, nil
		}
		switch r.head {
		case "func", "external":
			m := hdr.FindStringSubmatch(r.rest)
			if m == nil {
				return fmt.Errorf("%s:%d: bad header %q", file, r.line, r.rest)
			}
			key := m[1]
			if !strings.Contains(key, ".") && defPkg != "" {
				key = defPkg + "." + key
			} else if first := strings.SplitN(key, ".", 2)[0]; defPkg != "" && !isSpec && strings.Count(key, ".") == 1 && first != "bexpr" && first != "grammar" {
				// Type.Method in the default package
				key = defPkg + "." + key
			}
			cur = &Contract{Key: key, External: r.head == "external", Loops: map[int]*LoopContract{}, File: file, Line: r.line}
			cur.Params = splitNames(m[2])
			cur.Results = splitNames(m[3])
			if r.tag != "" {
				for _, p := range strings.Split(r.tag, ",") {
					cur.Props = append(cur.Props, strings.TrimSpace(p))
				}
			}
			if _, dup := cs.ByKey[key]; dup {
				return fmt.Errorf("%s:%d: duplicate contract for %s", file, r.line, key)
			}
			cs.ByKey[key] = cur
			curLoop, curLemma, curRule = nil, nil, nil
		case "rule":
			m := regexp.MustCompile(`^(\w+)\s*\(\s*(\w+)\s*(?:,\s*(\w+)\s*)?\)$`).FindStringSubmatch(strings.TrimSpace(r.rest))
			if m == nil {
				return fmt.Errorf("%s:%d: bad rule header %q (want: rule Name(v) or rule Name(v, n))", file, r.line, r.rest)
			}
			if _, dup := cs.Rules[m[1]]; dup {
				return fmt.Errorf("%s:%d: duplicate rule contract for %s", file, r.line, m[1])
			}
			curRule = &RuleContract{Name: m[1], Var: m[2], LenVar: m[3], File: file, Line: r.line}
			cs.Rules[m[1]] = curRule
			cur, curLoop, curLemma = nil, nil, nil
		case "yields":
			if curRule == nil {
				return fmt.Errorf("%s:%d: yields outside rule", file, r.line)
			}
			c, err := mk(r.head)
			if err != nil {
				return err
			}
			curRule.Yields = append(curRule.Yields, c)
		case "lemma":
			curRule = nil
			curLemma = &Lemma{Name: strings.TrimSpace(r.rest), File: file, Line: r.line, Fuel: 1}
			if r.tag != "" {
				for _, p := range strings.Split(r.tag, ",") {
					curLemma.Props = append(curLemma.Props, strings.TrimSpace(p))
				}
			}
			cs.Lemmas = append(cs.Lemmas, curLemma)
			cur, curLoop = nil, nil
		case "var":
			if curLemma == nil {
				return fmt.Errorf("%s:%d: var outside lemma", file, r.line)
			}
			for _, v := range strings.Split(r.rest, ",") {
				f := strings.Fields(v)
				if len(f) != 2 {
					return fmt.Errorf("%s:%d: bad var %q", file, r.line, v)
				}
				curLemma.Vars = append(curLemma.Vars, [2]string{f[0], f[1]})
			}
		case "opaque":
			if curLemma == nil {
				return fmt.Errorf("%s:%d: opaque outside lemma", file, r.line)
			}
			curLemma.Opaque = append(curLemma.Opaque, splitNames(r.rest)...)
		case "fuel":
			if curLemma == nil {
				return fmt.Errorf("%s:%d: fuel outside lemma", file, r.line)
			}
			n, _ := strconv.Atoi(r.rest)
			curLemma.Fuel = n
		case "hyp", "concl":
			if curLemma == nil {
				return fmt.Errorf("%s:%d: %s outside lemma", file, r.line, r.head)
			}
			c, err := mk(r.head)
			if err != nil {
				return err
			}
			if r.head == "hyp" {
				curLemma.Hyps = append(curLemma.Hyps, c)
			} else {
				curLemma.Concl = append(curLemma.Concl, c)
			}
		case "trusted":
			if cur == nil {
				return fmt.Errorf("%s:%d: trusted outside func", file, r.line)
			}
			cur.Trusted = true
		case "dead_returns":
			if cur == nil {
				return fmt.Errorf("%s:%d: dead_returns outside func", file, r.line)
			}
			n, _ := strconv.Atoi(strings.TrimSpace(r.rest))
			cur.DeadReturns = n
		case "fresh":
			if cur == nil {
				return fmt.Errorf("%s:%d: fresh outside func", file, r.line)
			}
			cur.Fresh = true
		case "may_panic":
			if cur == nil {
				return fmt.Errorf("%s:%d: may_panic outside func", file, r.line)
			}
			cur.MayPanic = true
		case "assigns":
			if cur == nil {
				return fmt.Errorf("%s:%d: assigns outside func", file, r.line)
			}
			cur.HasAssigns = true
			for _, a := range strings.Split(r.rest, ",") {
				a = strings.TrimSpace(a)
				if a == "" || a == "nothing" {
					continue
				}
				cur.Assigns = append(cur.Assigns, a)
			}
		case "loop":
			if cur == nil {
				return fmt.Errorf("%s:%d: loop outside func", file, r.line)
			}
			n, err := strconv.Atoi(strings.TrimSuffix(strings.TrimSpace(r.rest), ":"))
			if err != nil {
				return fmt.Errorf("%s:%d: bad loop ordinal %q", file, r.line, r.rest)
			}
			curLoop = &LoopContract{Ordinal: n}
			cur.Loops[n] = curLoop
		case "ensures_recovered":
			if cur == nil {
				return fmt.Errorf("%s:%d: ensures_recovered outside func", file, r.line)
			}
			c, err := mk(r.head)
			if err != nil {
				return err
			}
			cur.EnsuresRecovered = append(cur.EnsuresRecovered, c)
		case "assume", "panics_only_if":
			if cur == nil {
				return fmt.Errorf("%s:%d: %s outside func", file, r.line, r.head)
			}
			c, err := mk(r.head)
			if err != nil {
				return err
			}
			if r.head == "assume" {
				cur.Assumes = append(cur.Assumes, c)
			} else {
				cur.PanicsOnlyIf = append(cur.PanicsOnlyIf, c)
			}
		case "requires", "ensures", "invariant", "decreases":
			if cur == nil {
				return fmt.Errorf("%s:%d: %s outside func", file, r.line, r.head)
			}
			c, err := mk(r.head)
			if err != nil {
				return err
			}
			switch r.head {
			case "requires":
				cur.Requires = append(cur.Requires, c)
			case "ensures":
				cur.Ensures = append(cur.Ensures, c)
			case "invariant":
				if curLoop == nil {
					return fmt.Errorf("%s:%d: invariant outside loop", file, r.line)
				}
				curLoop.Invariants = append(curLoop.Invariants, c)
			case "decreases":
				if curLoop != nil {
					curLoop.Decreases = c
				} else {
					cur.Decreases = c
				}
			}
		}
	}
	return nil
}

func splitNames(s string) []string {
	var out []string
	for _, p := range strings.Split(s, ",") {
		p = strings.TrimSpace(p)
		if p != "" {
			out = append(out, p)
		}
	}
	return out
}

func contractFiles(repo string) []string {
	var fs []string
	for _, g := range []string{filepath.Join(repo, "contracts_verif.go"), filepath.Join(repo, "grammar", "contracts_verif.go")} {
		if _, err := os.Stat(g); err == nil {
			fs = append(fs, g)
		}
	}
	specs, _ := filepath.Glob(specDir() + "/*.spec")
	sort.Strings(specs)
	fs = append(fs, specs...)
	return fs
}
