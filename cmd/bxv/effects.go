package main

import (
	"fmt"
	"go/token"
	"go/types"
	"sort"
	"strings"

	"golang.org/x/tools/go/ssa"
)

// Interprocedural write-effect analysis on SSA (DESIGN §4.8, C12/C13): for
// every function, which memory may it write that it did not allocate itself?
// Zero-annotation: it does not read the contracts, so a change that adds a
// write is noticed even if someone edits an assigns clause.

type rootClass struct {
	kind string // fresh | param | global | unknown
	idx  int    // parameter index (param; free variables are numbered after the parameters)
	name string // global name / description
}

func (r rootClass) String() string {
	switch r.kind {
	case "param":
		return fmt.Sprintf("param#%d", r.idx)
	case "global":
		return "global " + r.name
	case "unknown":
		return "unknown(" + r.name + ")"
	}
	return "fresh"
}

type writeEffect struct {
	root rootClass
	what string // description of what is written
	pos  token.Pos
	via  string // call chain
}

func (w writeEffect) key() string { return w.root.String() + "|" + w.what }

type effectAnalysis struct {
	V       *Verifier
	eff     map[*ssa.Function]map[string]writeEffect
	retFr   map[*ssa.Function]bool
	conc    map[*ssa.Function][]string // go / send / select statements
	visited map[*ssa.Function]bool
}

// mutating externals: which argument (0 = receiver/first) do they write?
var mutatingExternals = map[string][]int{
	"sort.Slice": {0}, "sort.SliceStable": {0}, "sort.Strings": {0}, "sort.Ints": {0}, "sort.Sort": {0}, "sort.Stable": {0},
	"reflect.Value.Set": {0}, "reflect.Value.SetMapIndex": {0}, "reflect.Value.SetInt": {0}, "reflect.Value.SetString": {0}, "reflect.Value.SetBool": {0},
	"reflect.Value.SetFloat": {0}, "reflect.Value.SetUint": {0}, "reflect.Value.SetLen": {0}, "reflect.Value.SetBytes": {0}, "reflect.Copy": {0},
	"bytes.Buffer.WriteString": {0}, "bytes.Buffer.WriteRune": {0}, "bytes.Buffer.Write": {0}, "bytes.Buffer.WriteByte": {0},
	"fmt.Fprintf": {0}, "fmt.Fprint": {0}, "fmt.Fprintln": {0}, "io.Writer.Write": {0}, "io.WriteString": {0},
	"strings.Builder.WriteString": {0}, "strings.Builder.WriteByte": {0}, "strings.Builder.WriteRune": {0},
}

// externals whose result is memory allocated by the call
var freshExternals = map[string]bool{
	"reflect.MakeSlice": true, "reflect.MakeMap": true, "reflect.Value.MapKeys": true, "reflect.Append": true, "reflect.New": true,
	"reflect.ValueOf": false, "regexp.Compile": true, "errors.New": true, "fmt.Errorf": true, "fmt.Sprintf": true, "strings.Join": true,
	"io.ReadAll": true, "os.Open": true, "pointerstructure.Parse": true,
}

func newEffectAnalysis(V *Verifier) *effectAnalysis {
	return &effectAnalysis{V: V, eff: map[*ssa.Function]map[string]writeEffect{}, retFr: map[*ssa.Function]bool{}, conc: map[*ssa.Function][]string{}}
}

func inRepo(V *Verifier, f *ssa.Function) bool {
	return f != nil && V.P.repoPkg(f) != nil && len(f.Blocks) > 0
}

// roots: the classes of memory an SSA value may point into.
func (a *effectAnalysis) roots(fn *ssa.Function, v ssa.Value, seen map[ssa.Value]bool) []rootClass {
	if seen[v] {
		return nil
	}
	seen[v] = true
	switch x := v.(type) {
	case *ssa.Alloc, *ssa.MakeSlice, *ssa.MakeMap, *ssa.MakeChan, *ssa.MakeClosure:
		return []rootClass{{kind: "fresh"}}
	case *ssa.Const, *ssa.Function, *ssa.Builtin:
		return []rootClass{{kind: "fresh"}}
	case *ssa.Parameter:
		for i, p := range fn.Params {
			if p == x {
				return []rootClass{{kind: "param", idx: i}}
			}
		}
	case *ssa.FreeVar:
		for i, p := range fn.FreeVars {
			if p == x {
				return []rootClass{{kind: "param", idx: len(fn.Params) + i}}
			}
		}
	case *ssa.Global:
		return []rootClass{{kind: "global", name: pkgShort(x.Pkg.Pkg) + "." + x.Name()}}
	case *ssa.FieldAddr:
		return a.roots(fn, x.X, seen)
	case *ssa.IndexAddr:
		return a.roots(fn, x.X, seen)
	case *ssa.Field:
		return a.roots(fn, x.X, seen)
	case *ssa.Index:
		return a.roots(fn, x.X, seen)
	case *ssa.Lookup:
		return a.roots(fn, x.X, seen)
	case *ssa.Slice:
		return a.roots(fn, x.X, seen)
	case *ssa.UnOp:
		if x.Op == token.MUL {
			return a.roots(fn, x.X, seen) // memory reachable from the loaded-from object
		}
		return []rootClass{{kind: "fresh"}}
	case *ssa.Extract:
		return a.roots(fn, x.Tuple, seen)
	case *ssa.TypeAssert:
		return a.roots(fn, x.X, seen)
	case *ssa.ChangeInterface:
		return a.roots(fn, x.X, seen)
	case *ssa.ChangeType:
		return a.roots(fn, x.X, seen)
	case *ssa.MakeInterface:
		return a.roots(fn, x.X, seen)
	case *ssa.Convert:
		if _, ok := x.Type().Underlying().(*types.Basic); ok {
			return []rootClass{{kind: "fresh"}}
		}
		return []rootClass{{kind: "fresh"}} // string<->[]byte conversions copy
	case *ssa.BinOp:
		return []rootClass{{kind: "fresh"}}
	case *ssa.Phi:
		var out []rootClass
		for _, e := range x.Edges {
			out = append(out, a.roots(fn, e, seen)...)
		}
		return out
	case *ssa.Next, *ssa.Range:
		if r, ok := x.(*ssa.Next); ok {
			return a.roots(fn, r.Iter, seen)
		}
		return a.roots(fn, x.(*ssa.Range).X, seen)
	case *ssa.Call:
		cc := &x.Call
		if b, ok := cc.Value.(*ssa.Builtin); ok {
			switch b.Name() {
			case "append":
				out := a.roots(fn, cc.Args[0], seen)
				return append(out, rootClass{kind: "fresh"})
			case "recover":
				return []rootClass{{kind: "unknown", name: "recover()"}}
			}
			return []rootClass{{kind: "fresh"}}
		}
		key := calleeKey(cc)
		if callee := cc.StaticCallee(); inRepo(a.V, callee) {
			if a.returnsFresh(callee) {
				return []rootClass{{kind: "fresh"}}
			}
			// result may alias whatever the callee's arguments reach
			var out []rootClass
			for _, arg := range cc.Args {
				if pointerLike(arg.Type()) {
					out = append(out, a.roots(fn, arg, seen)...)
				}
			}
			if len(out) == 0 {
				out = append(out, rootClass{kind: "fresh"})
			}
			return out
		}
		if fr, ok := freshExternals[key]; ok && fr {
			return []rootClass{{kind: "fresh"}}
		}
		// external: result may alias its arguments (reflect.ValueOf(x), v.Index(i), v.Interface(), ptr.Get(d) ...)
		var out []rootClass
		if cc.IsInvoke() {
			out = append(out, a.roots(fn, cc.Value, seen)...)
		}
		for _, arg := range cc.Args {
			if pointerLike(arg.Type()) {
				out = append(out, a.roots(fn, arg, seen)...)
			}
		}
		if key == "" {
			out = append(out, a.roots(fn, cc.Value, seen)...)
		}
		if len(out) == 0 {
			out = append(out, rootClass{kind: "fresh"})
		}
		return out
	}
	return []rootClass{{kind: "unknown", name: fmt.Sprintf("%T", v)}}
}

func pointerLike(t types.Type) bool {
	switch u := t.Underlying().(type) {
	case *types.Pointer, *types.Slice, *types.Map, *types.Chan, *types.Interface, *types.Signature:
		return true
	case *types.Struct:
		for i := 0; i < u.NumFields(); i++ {
			if pointerLike(u.Field(i).Type()) {
				return true
			}
		}
	case *types.Named:
		return pointerLike(u.Underlying())
	}
	return false
}

// returnsFresh: every returned pointer-like value is allocated by the function itself.
func (a *effectAnalysis) returnsFresh(f *ssa.Function) bool {
	if v, ok := a.retFr[f]; ok {
		return v
	}
	a.retFr[f] = false // recursion guard
	ok := true
	for _, b := range f.Blocks {
		for _, in := range b.Instrs {
			r, isRet := in.(*ssa.Return)
			if !isRet {
				continue
			}
			for _, res := range r.Results {
				if !pointerLike(res.Type()) {
					continue
				}
				if _, isErr := res.Type().Underlying().(*types.Interface); isErr && types.Identical(res.Type(), types.Universe.Lookup("error").Type()) {
					continue
				}
				for _, rc := range a.roots(f, res, map[ssa.Value]bool{}) {
					if rc.kind != "fresh" {
						ok = false
					}
				}
			}
		}
	}
	a.retFr[f] = ok
	return ok
}

func (a *effectAnalysis) add(f *ssa.Function, e writeEffect) bool {
	if e.root.kind == "fresh" {
		return false
	}
	m := a.eff[f]
	if m == nil {
		m = map[string]writeEffect{}
		a.eff[f] = m
	}
	if _, ok := m[e.key()]; ok {
		return false
	}
	m[e.key()] = e
	return true
}

// analyse computes the effects of all repo functions to a fixpoint.
func (a *effectAnalysis) analyse() {
	var fns []*ssa.Function
	for _, k := range sortedFuncKeys(a.V.P.Funcs) {
		fns = append(fns, a.V.P.Funcs[k])
	}
	// thunks / bound methods referenced from the rule table
	for changed, iter := true, 0; changed && iter < 50; iter++ {
		changed = false
		for _, f := range fns {
			if a.scan(f) {
				changed = true
			}
		}
	}
}

func (a *effectAnalysis) scan(f *ssa.Function) bool {
	changed := false
	if len(f.Blocks) == 0 {
		return false
	}
	for _, b := range f.Blocks {
		for _, in := range b.Instrs {
			switch in := in.(type) {
			case *ssa.Store:
				what := "store to " + describeAddr(a.V, in.Addr)
				for _, rc := range a.roots(f, in.Addr, map[ssa.Value]bool{}) {
					if a.add(f, writeEffect{root: rc, what: what, pos: in.Pos(), via: funcKey(f)}) {
						changed = true
					}
				}
			case *ssa.MapUpdate:
				for _, rc := range a.roots(f, in.Map, map[ssa.Value]bool{}) {
					if a.add(f, writeEffect{root: rc, what: "map update", pos: in.Pos(), via: funcKey(f)}) {
						changed = true
					}
				}
			case *ssa.Go:
				a.conc[f] = appendUniq(a.conc[f], "go statement")
			case *ssa.Send:
				a.conc[f] = appendUniq(a.conc[f], "channel send")
			case *ssa.Select:
				a.conc[f] = appendUniq(a.conc[f], "select")
			case ssa.CallInstruction:
				cc := in.Common()
				if b, ok := cc.Value.(*ssa.Builtin); ok {
					switch b.Name() {
					case "append":
						// may write into the backing array of its first argument
						for _, rc := range a.roots(f, cc.Args[0], map[ssa.Value]bool{}) {
							if a.add(f, writeEffect{root: rc, what: "append into the backing array of a slice", pos: in.Pos(), via: funcKey(f)}) {
								changed = true
							}
						}
					case "copy", "delete", "clear":
						for _, rc := range a.roots(f, cc.Args[0], map[ssa.Value]bool{}) {
							if a.add(f, writeEffect{root: rc, what: b.Name() + " into", pos: in.Pos(), via: funcKey(f)}) {
								changed = true
							}
						}
					}
					continue
				}
				var args []ssa.Value
				if cc.IsInvoke() {
					args = append(args, cc.Value)
				}
				args = append(args, cc.Args...)
				key := calleeKey(cc)
				var callees []*ssa.Function
				if callee := cc.StaticCallee(); callee != nil {
					if inRepo(a.V, callee) {
						callees = append(callees, callee)
					} else if idxs, ok := mutatingExternals[key]; ok {
						for _, i := range idxs {
							if i < len(args) {
								for _, rc := range a.roots(f, args[i], map[ssa.Value]bool{}) {
									if a.add(f, writeEffect{root: rc, what: "mutated by " + key, pos: in.Pos(), via: funcKey(f)}) {
										changed = true
									}
								}
							}
						}
					} else if c := a.V.CS.ByKey[key]; c == nil || !c.External {
						// an external function nobody has stated anything about: it may
						// write through whatever pointer-like arguments it is handed
						// (A-EXT-PURE covers only the functions that have an external
						// contract in spec/*.spec)
						for _, av := range args {
							if !pointerLike(av.Type()) {
								continue
							}
							for _, rc := range a.roots(f, av, map[ssa.Value]bool{}) {
								if a.add(f, writeEffect{root: rc, what: "passed to external function without contract " + key, pos: in.Pos(), via: funcKey(f)}) {
									changed = true
								}
							}
						}
					}
				} else if cc.IsInvoke() {
					// interface method: repo implementations + known mutating externals
					if idxs, ok := mutatingExternals[key]; ok {
						for _, i := range idxs {
							if i < len(args) {
								for _, rc := range a.roots(f, args[i], map[ssa.Value]bool{}) {
									if a.add(f, writeEffect{root: rc, what: "mutated by " + key, pos: in.Pos(), via: funcKey(f)}) {
										changed = true
									}
								}
							}
						}
					}
					for _, k := range sortedFuncKeys(a.V.P.Funcs) {
						g := a.V.P.Funcs[k]
						if g.Signature.Recv() != nil && g.Name() == cc.Method.Name() && types.Implements(g.Signature.Recv().Type(), cc.Value.Type().Underlying().(*types.Interface)) {
							callees = append(callees, g)
						}
					}
				} else {
					// function value: every repo function with this signature that is used as a value
					for _, c := range a.V.candidatesAll(cc.Signature()) {
						callees = append(callees, c)
					}
					if sigIsParserCallback(cc.Signature()) {
						for _, k2 := range sortedFuncKeys(a.V.P.Funcs) {
							if strings.HasPrefix(k2, "grammar.parser.callon") {
								callees = append(callees, a.V.P.Funcs[k2])
							}
						}
					}
					if len(callees) == 0 {
						// unknown function value (e.g. a user hook): assumed pure (A-HOOK)
					}
					// closures: their free variables are the bindings — handled through MakeClosure roots
				}
				for _, g := range callees {
					for _, ge := range sortedEffects(a.eff[g]) {
						switch ge.root.kind {
						case "param":
							var argv ssa.Value
							if ge.root.idx < len(g.Params) {
								if ge.root.idx < len(args) {
									argv = args[ge.root.idx]
								}
							} else {
								// free variable of a closure: bound at MakeClosure; the
								// closure value is cc.Value
								if mc, ok := cc.Value.(*ssa.MakeClosure); ok {
									fi := ge.root.idx - len(g.Params)
									if fi < len(mc.Bindings) {
										argv = mc.Bindings[fi]
									}
								}
							}
							if argv == nil {
								if a.add(f, writeEffect{root: rootClass{kind: "unknown", name: "captured variable of " + funcKey(g)}, what: ge.what, pos: in.Pos(), via: funcKey(f) + " -> " + ge.via}) {
									changed = true
								}
								continue
							}
							for _, rc := range a.roots(f, argv, map[ssa.Value]bool{}) {
								if a.add(f, writeEffect{root: rc, what: ge.what, pos: in.Pos(), via: funcKey(f) + " -> " + ge.via}) {
									changed = true
								}
							}
						default:
							if a.add(f, writeEffect{root: ge.root, what: ge.what, pos: in.Pos(), via: funcKey(f) + " -> " + ge.via}) {
								changed = true
							}
						}
					}
					for _, c := range a.conc[g] {
						a.conc[f] = appendUniq(a.conc[f], c+" (via "+funcKey(g)+")")
					}
				}
			}
		}
	}
	return changed
}

func appendUniq(s []string, x string) []string {
	for _, y := range s {
		if y == x {
			return s
		}
	}
	return append(s, x)
}

func sortedEffects(m map[string]writeEffect) []writeEffect {
	ks := make([]string, 0, len(m))
	for k := range m {
		ks = append(ks, k)
	}
	sort.Strings(ks)
	out := make([]writeEffect, 0, len(ks))
	for _, k := range ks {
		out = append(out, m[k])
	}
	return out
}

func describeAddr(V *Verifier, a ssa.Value) string {
	switch x := a.(type) {
	case *ssa.FieldAddr:
		pt := x.X.Type().Underlying().(*types.Pointer).Elem()
		st := pt.Underlying().(*types.Struct)
		return V.U.ownerKey(pt) + "." + st.Field(x.Field).Name()
	case *ssa.IndexAddr:
		return "element of " + describeAddr(V, x.X)
	case *ssa.Global:
		return "global " + x.Name()
	}
	return strings.TrimPrefix(a.Type().String(), "*")
}

// candidatesAll: repo functions (closures included) with the given signature that are used as values.
func (V *Verifier) candidatesAll(sig *types.Signature) []*ssa.Function {
	var out []*ssa.Function
	for _, k := range sortedFuncKeys(V.P.Funcs) {
		f := V.P.Funcs[k]
		if f.Signature.Recv() != nil {
			continue
		}
		if types.Identical(stripRecv(f.Signature), stripRecv(sig)) && V.usedAsValue[k] {
			out = append(out, f)
		}
	}
	return out
}

// reachableFrom: repo functions reachable from the given entry keys.
// reachableFromUntrusted is reachableFrom that does not look behind a
// function whose contract is `trusted` (its body is somebody else's
// business: grammar.Parse recovers the engine's panics, which is verified on
// (*parser).parse).
func (V *Verifier) reachableFromUntrusted(entries ...string) []string {
	return V.reachable(true, entries...)
}

func (V *Verifier) reachableFrom(entries ...string) []string {
	return V.reachable(false, entries...)
}

func (V *Verifier) reachable(stopAtTrusted bool, entries ...string) []string {
	seen := map[string]bool{}
	var walk func(k string)
	walk = func(k string) {
		if seen[k] || V.P.Funcs[k] == nil {
			return
		}
		if c := V.CS.ByKey[k]; stopAtTrusted && c != nil && c.Trusted {
			return
		}
		seen[k] = true
		f := V.P.Funcs[k]
		for _, b := range f.Blocks {
			for _, in := range b.Instrs {
				if mc, ok := in.(*ssa.MakeClosure); ok {
					walk(funcKey(mc.Fn.(*ssa.Function)))
				}
				ci, ok := in.(ssa.CallInstruction)
				if !ok {
					continue
				}
				cc := ci.Common()
				if callee := cc.StaticCallee(); callee != nil {
					walk(funcKey(callee))
				} else if cc.IsInvoke() {
					if iface, ok := cc.Value.Type().Underlying().(*types.Interface); ok {
						for _, k2 := range sortedFuncKeys(V.P.Funcs) {
							g := V.P.Funcs[k2]
							if g.Signature.Recv() != nil && g.Name() == cc.Method.Name() && types.Implements(g.Signature.Recv().Type(), iface) {
								walk(k2)
							}
						}
					}
				} else if _, isB := cc.Value.(*ssa.Builtin); !isB {
					for _, g := range V.candidatesAll(cc.Signature()) {
						walk(funcKey(g))
					}
					// rule-table callbacks: (*parser).callonX thunks
					if sigIsParserCallback(cc.Signature()) {
						for _, k2 := range sortedFuncKeys(V.P.Funcs) {
							if strings.HasPrefix(k2, "grammar.parser.callon") {
								walk(k2)
							}
						}
					}
				}
			}
		}
	}
	for _, e := range entries {
		walk(e)
	}
	var out []string
	for k := range seen {
		out = append(out, k)
	}
	sort.Strings(out)
	return out
}

func sigIsParserCallback(sig *types.Signature) bool {
	if sig.Params().Len() != 1 {
		return false
	}
	p, ok := sig.Params().At(0).Type().(*types.Pointer)
	if !ok {
		return false
	}
	n, ok := p.Elem().(*types.Named)
	return ok && n.Obj().Name() == "parser"
}

// inferredWrites: the heap keys (struct-field heaps, globals) a repo function
// may store to, transitively through its callees (contracted callees
// contribute their assigns clause). Sound by type safety: a field heap is
// only written through a FieldAddr of that field. "*" = unknown.
func (V *Verifier) inferredWrites(fn *ssa.Function) map[string]bool {
	if V.infWrites == nil {
		V.infWrites = map[*ssa.Function]map[string]bool{}
		fns := make([]*ssa.Function, 0, len(V.P.Funcs))
		for _, k := range sortedFuncKeys(V.P.Funcs) {
			fns = append(fns, V.P.Funcs[k])
			V.infWrites[V.P.Funcs[k]] = map[string]bool{}
		}
		e := &fnEnc{V: V, U: V.U}
		add := func(f *ssa.Function, k string) bool {
			if V.infWrites[f][k] {
				return false
			}
			V.infWrites[f][k] = true
			return true
		}
		for changed, it := true, 0; changed && it < 60; it++ {
			changed = false
			for _, f := range fns {
				e.fn = f
				for _, b := range f.Blocks {
					for _, in := range b.Instrs {
						switch in := in.(type) {
						case *ssa.Store:
							if _, isAlloc := rootOf(in.Addr).(*ssa.Alloc); isAlloc {
								// local variable / fresh object: still a write to that field heap
							}
							for _, k := range e.addrKeys(in.Addr) {
								if add(f, k) {
									changed = true
								}
							}
						case ssa.CallInstruction:
							cc := in.Common()
							if _, isB := cc.Value.(*ssa.Builtin); isB {
								continue
							}
							var callees []*ssa.Function
							key := calleeKey(cc)
							if callee := cc.StaticCallee(); callee != nil {
								if inRepo(V, callee) {
									callees = append(callees, callee)
								} else if c := V.CS.ByKey[key]; c != nil && c.HasAssigns {
									for _, a := range stripLoc(c.Assigns) {
										if add(f, a) {
											changed = true
										}
									}
								}
							} else if cc.IsInvoke() {
								if iface, ok := cc.Value.Type().Underlying().(*types.Interface); ok {
									for _, k2 := range sortedFuncKeys(V.P.Funcs) {
										g := V.P.Funcs[k2]
										if g.Signature.Recv() != nil && g.Name() == cc.Method.Name() && types.Implements(g.Signature.Recv().Type(), iface) {
											callees = append(callees, g)
										}
									}
								}
							} else {
								callees = append(callees, V.candidatesAll(cc.Signature())...)
								if sigIsParserCallback(cc.Signature()) {
									for _, k2 := range sortedFuncKeys(V.P.Funcs) {
										if strings.HasPrefix(k2, "grammar.parser.callon") {
											callees = append(callees, V.P.Funcs[k2])
										}
									}
								}
							}
							for _, g := range callees {
								if c := V.CS.ByKey[funcKey(g)]; c != nil && c.HasAssigns {
									for _, a := range stripLoc(c.Assigns) {
										if add(f, a) {
											changed = true
										}
									}
									continue
								}
								for k := range V.infWrites[g] {
									if add(f, k) {
										changed = true
									}
								}
							}
						}
					}
				}
			}
		}
	}
	return V.infWrites[fn]
}
