package main

import (
	"fmt"
	"go/constant"
	"go/types"
	"strings"
)

// heapState maps a heap key to the SMT term denoting its current value.
type heapState map[string]string

func (h heapState) clone() heapState {
	n := make(heapState, len(h))
	for k, v := range h {
		n[k] = v
	}
	return n
}

// cenv is the environment in which a contract expression is translated.
type cenv struct {
	U     *Universe
	vars  map[string]Term
	heap  heapState // current ("post") state
	old   heapState // pre-state for old(...)
	pkg   *types.Package
	inOld bool
	// heapSym returns the entry symbol for a heap key not present in a state.
	heapSym func(key string) string
}

func (c *cenv) curHeap() heapState {
	if c.inOld && c.old != nil {
		return c.old
	}
	return c.heap
}

func (c *cenv) heapTerm(h *heapInfo) string {
	st := c.curHeap()
	if st != nil {
		if s, ok := st[h.Key]; ok {
			return s
		}
	}
	return c.heapSym(h.Key)
}

func (c *cenv) sub(vars map[string]Term) *cenv {
	n := *c
	n.vars = map[string]Term{}
	for k, v := range c.vars {
		n.vars[k] = v
	}
	for k, v := range vars {
		n.vars[k] = v
	}
	return &n
}

// loadField reads field f (index i) of the struct of type st located at ref.
func (U *Universe) loadAt(ref string, t types.Type, heapTerm func(*heapInfo) string) Term {
	t = types.Unalias(t)
	if st, ok := t.Underlying().(*types.Struct); ok && U.sortOf(t) != "RV" {
		srt := U.sortOf(t)
		si := U.structs[srt]
		if len(si.Fields) == 0 {
			return Term{si.ctor(), srt, t}
		}
		parts := []string{si.ctor()}
		for i := 0; i < st.NumFields(); i++ {
			parts = append(parts, U.loadField(ref, t, i, heapTerm).S)
		}
		return Term{"(" + strings.Join(parts, " ") + ")", srt, t}
	}
	h := U.derefHeap(t)
	return Term{fmt.Sprintf("(select %s %s)", heapTerm(h), ref), h.Elem, t}
}

func (U *Universe) embRef(ref string, owner types.Type, f *types.Var) string {
	sym := "emb." + U.ownerKey(owner) + "." + f.Name()
	if _, ok := U.Sigs[sym]; !ok {
		U.Sigs[sym] = &Sig{Name: sym, Args: []string{"Int"}, Res: "Int"}
		U.extra = append(U.extra, fmt.Sprintf("(declare-fun %s (Int) Int)", sym))
	}
	if ref != "0" {
		U.sideFact(fmt.Sprintf("(=> (not (= %s 0)) (not (= (%s %s) 0)))", ref, sym, ref))
	}
	return fmt.Sprintf("(%s %s)", sym, ref)
}

func (U *Universe) ownerKey(owner types.Type) string {
	owner = types.Unalias(owner)
	if n, ok := owner.(*types.Named); ok {
		return namedKey(n)
	}
	return U.sortOf(owner)
}

func (U *Universe) heapOfField(owner types.Type, f *types.Var) *heapInfo {
	owner = types.Unalias(owner)
	var h *heapInfo
	if n, ok := owner.(*types.Named); ok {
		h = U.fieldHeap(n, f)
	} else {
		h = U.anonFieldHeap(owner.Underlying().(*types.Struct), f)
	}
	return U.privOf(h)
}

// privOf: while the encoder works on one of the activation's own variables
// (U.priv names it), field and deref heaps are that variable's private
// arrays, not the heaps shared by all objects of the type: a store to a
// local struct must not look like a change of the syntax tree to a spec
// function that takes the tree's heaps.
func (U *Universe) privOf(h *heapInfo) *heapInfo {
	if U.priv == "" || strings.HasPrefix(h.Key, "priv.") || strings.HasPrefix(h.Key, "global.") {
		return h
	}
	key := "priv." + U.priv + "." + h.Key
	if ph, ok := U.heaps[key]; ok {
		return ph
	}
	ph := &heapInfo{Key: key, Sym: "HP." + U.priv + "." + h.Key, Elem: h.Elem, Var: h.Var}
	U.heaps[key] = ph // not in heapO: nothing outside the activation can touch it
	return ph
}

// loadField reads field i of struct type owner located at ref.
func (U *Universe) loadField(ref string, owner types.Type, i int, heapTerm func(*heapInfo) string) Term {
	st := types.Unalias(owner).Underlying().(*types.Struct)
	f := st.Field(i)
	ft := types.Unalias(f.Type())
	if _, ok := ft.Underlying().(*types.Struct); ok && U.sortOf(ft) != "RV" {
		return U.loadAt(U.embRef(ref, owner, f), ft, heapTerm)
	}
	h := U.heapOfField(owner, f)
	return Term{fmt.Sprintf("(select %s %s)", heapTerm(h), ref), h.Elem, ft}
}

func (c *cenv) tr(x *CExpr, want string) (Term, error) {
	U := c.U
	switch x.Op {
	case "num":
		v := x.Name
		if strings.HasPrefix(v, "0x") {
			var n int64
			fmt.Sscanf(v, "0x%x", &n)
			v = fmt.Sprint(n)
		}
		return Term{S: v, Sort: "Int"}, nil
	case "str":
		return Term{S: U.strLit(x.Name), Sort: "Str"}, nil
	case "id":
		return c.ident(x.Name, want)
	case "field":
		// qualified name?
		if fn := flatName(x); fn != "" {
			head := strings.SplitN(fn, ".", 2)[0]
			if _, isVar := c.vars[head]; !isVar {
				if t, err := c.ident(fn, want); err == nil {
					return t, nil
				}
			}
		}
		b, err := c.tr(x.Args[0], "")
		if err != nil {
			return Term{}, err
		}
		return c.field(b, x.Name)
	case "index":
		b, err := c.tr(x.Args[0], "")
		if err != nil {
			return Term{}, err
		}
		want := "Int"
		if strings.HasPrefix(b.Sort, "(Array") {
			sx, _ := parseSexprs(b.Sort)
			want = sx[0].List[1].String()
		}
		i, err := c.tr(x.Args[1], want)
		if err != nil {
			return Term{}, err
		}
		if strings.HasPrefix(b.Sort, "Sl.") {
			var et types.Type
			if b.T != nil {
				switch u := types.Unalias(b.T).Underlying().(type) {
				case *types.Slice:
					et = u.Elem()
				case *types.Array:
					et = u.Elem()
				}
			}
			return Term{fmt.Sprintf("(%s.at %s %s)", b.Sort, b.S, i.S), U.slices[b.Sort], et}, nil
		}
		if strings.HasPrefix(b.Sort, "(Array") {
			sx, _ := parseSexprs(b.Sort)
			return Term{fmt.Sprintf("(select %s %s)", b.S, i.S), sx[0].List[2].String(), nil}, nil
		}
		return Term{}, fmt.Errorf("cannot index sort %s in %s", b.Sort, x)
	case "slice":
		b, err := c.tr(x.Args[0], "")
		if err != nil {
			return Term{}, err
		}
		lo, hi := "0", ""
		if x.Args[1] != nil {
			t, err := c.tr(x.Args[1], "Int")
			if err != nil {
				return Term{}, err
			}
			lo = t.S
		}
		if x.Args[2] != nil {
			t, err := c.tr(x.Args[2], "Int")
			if err != nil {
				return Term{}, err
			}
			hi = t.S
		}
		if strings.HasPrefix(b.Sort, "Sl.") {
			if hi == "" {
				hi = fmt.Sprintf("(%s.len %s)", b.Sort, b.S)
			}
			return Term{fmt.Sprintf("(%s.sub %s %s %s)", b.Sort, b.S, lo, hi), b.Sort, b.T}, nil
		}
		if b.Sort == "Str" {
			if hi == "" {
				hi = fmt.Sprintf("(s.len %s)", b.S)
			}
			return Term{fmt.Sprintf("(s.sub %s %s %s)", b.S, lo, hi), "Str", b.T}, nil
		}
		return Term{}, fmt.Errorf("cannot slice sort %s", b.Sort)
	case "unop":
		if x.Name == "!" {
			a, err := c.tr(x.Args[0], "Bool")
			if err != nil {
				return Term{}, err
			}
			if a.Sort != "Bool" {
				return Term{}, fmt.Errorf("! applied to %s in %s", a.Sort, x)
			}
			return Term{"(not " + a.S + ")", "Bool", nil}, nil
		}
		a, err := c.tr(x.Args[0], "Int")
		if err != nil {
			return Term{}, err
		}
		return Term{"(- " + a.S + ")", "Int", nil}, nil
	case "binop":
		return c.binop(x)
	case "forall", "exists":
		vars := map[string]Term{}
		var bs []string
		for _, bv := range x.BVars {
			srt := bv[1]
			vars[bv[0]] = Term{S: "q!" + bv[0], Sort: srt}
			bs = append(bs, fmt.Sprintf("(q!%s %s)", bv[0], srt))
		}
		body, err := c.sub(vars).tr(x.Args[0], "Bool")
		if err != nil {
			return Term{}, err
		}
		return Term{fmt.Sprintf("(%s (%s) %s)", x.Op, strings.Join(bs, " "), body.S), "Bool", nil}, nil
	case "tyarg":
		return c.tyarg(x)
	case "call":
		return c.call(x, want)
	}
	return Term{}, fmt.Errorf("cannot translate %s", x)
}

func (c *cenv) ident(name, want string) (Term, error) {
	U := c.U
	if c.inOld {
		if t, ok := c.vars["old:"+name]; ok {
			return t, nil
		}
	}
	if t, ok := c.vars[name]; ok {
		return t, nil
	}
	switch name {
	case "true", "false":
		return Term{name, "Bool", nil}, nil
	case "nil":
		if want == "" {
			return Term{"nil", "?nil", nil}, nil
		}
		return Term{U.zero(want), want, nil}, nil
	}
	if sg, ok := U.Sigs[name]; ok && len(sg.Args) == 0 {
		return Term{name, sg.Res, nil}, nil
	}
	// Go constant, possibly qualified
	pkgName, obj := "", name
	if i := strings.Index(name, "."); i >= 0 {
		pkgName, obj = name[:i], name[i+1:]
	}
	var scopes []*types.Scope
	if pkgName == "" {
		if c.pkg != nil {
			scopes = append(scopes, c.pkg.Scope())
		}
	} else {
		for _, p := range []*types.Package{U.P.Bexpr.Pkg, U.P.Grammar.Pkg} {
			if p.Name() == pkgName {
				scopes = append(scopes, p.Scope())
			}
			for _, imp := range p.Imports() {
				if imp.Name() == pkgName {
					scopes = append(scopes, imp.Scope())
				}
			}
		}
	}
	for _, sc := range scopes {
		if o := sc.Lookup(obj); o != nil {
			if k, ok := o.(*types.Const); ok {
				return c.goConst(k)
			}
		}
	}
	return Term{}, fmt.Errorf("unknown identifier %q", name)
}

func (c *cenv) goConst(k *types.Const) (Term, error) {
	U := c.U
	srt := U.sortOf(k.Type())
	switch k.Val().Kind() {
	case constant.Int:
		return Term{smtIntStr(k.Val().ExactString()), "Int", k.Type()}, nil
	case constant.String:
		return Term{U.strLit(constant.StringVal(k.Val())), "Str", k.Type()}, nil
	case constant.Bool:
		if constant.BoolVal(k.Val()) {
			return Term{"true", "Bool", k.Type()}, nil
		}
		return Term{"false", "Bool", k.Type()}, nil
	}
	return Term{}, fmt.Errorf("unsupported constant %s of sort %s", k.Name(), srt)
}

func (c *cenv) field(b Term, name string) (Term, error) {
	U := c.U
	if b.T != nil {
		t := types.Unalias(b.T)
		if p, ok := t.Underlying().(*types.Pointer); ok {
			el := types.Unalias(p.Elem())
			if st, ok := el.Underlying().(*types.Struct); ok {
				for i := 0; i < st.NumFields(); i++ {
					if st.Field(i).Name() == name {
						return U.loadField(b.S, el, i, c.heapTerm), nil
					}
				}
				// promoted through embedded fields
				for i := 0; i < st.NumFields(); i++ {
					if st.Field(i).Embedded() {
						inner := U.loadField(b.S, el, i, c.heapTerm)
						if t, err := c.field(inner, name); err == nil {
							return t, nil
						}
					}
				}
				return Term{}, fmt.Errorf("no field %s in %s", name, el)
			}
		}
	}
	if si, ok := U.structs[b.Sort]; ok {
		i := si.fieldIndex(name)
		if i < 0 {
			return Term{}, fmt.Errorf("no field %s in %s", name, b.Sort)
		}
		return Term{fmt.Sprintf("(%s %s)", si.sel(i), b.S), si.FSorts[i], si.Fields[i].Type()}, nil
	}
	// generic datatype selector Sort.name
	if sg, ok := U.Sigs[b.Sort+"."+name]; ok && len(sg.Args) == 1 {
		return Term{fmt.Sprintf("(%s %s)", sg.Name, b.S), sg.Res, nil}, nil
	}
	return Term{}, fmt.Errorf("cannot select .%s from sort %s", name, b.Sort)
}

func (c *cenv) binop(x *CExpr) (Term, error) {
	op := x.Name
	switch op {
	case "==>", "<==>", "&&", "||":
		a, err := c.tr(x.Args[0], "Bool")
		if err != nil {
			return Term{}, err
		}
		b, err := c.tr(x.Args[1], "Bool")
		if err != nil {
			return Term{}, err
		}
		if a.Sort != "Bool" || b.Sort != "Bool" {
			return Term{}, fmt.Errorf("%s on non-Bool (%s, %s) in %s", op, a.Sort, b.Sort, x)
		}
		m := map[string]string{"==>": "=>", "<==>": "=", "&&": "and", "||": "or"}
		return Term{fmt.Sprintf("(%s %s %s)", m[op], a.S, b.S), "Bool", nil}, nil
	case "==", "!=":
		a, err := c.tr(x.Args[0], "")
		if err != nil {
			return Term{}, err
		}
		b, err := c.tr(x.Args[1], a.Sort)
		if err != nil {
			return Term{}, err
		}
		if a.Sort == "?nil" {
			a, err = c.tr(x.Args[0], b.Sort)
			if err != nil {
				return Term{}, err
			}
		}
		if b.Sort == "?nil" {
			b = Term{c.U.zero(a.Sort), a.Sort, nil}
		}
		if a.Sort != b.Sort {
			return Term{}, fmt.Errorf("%s on different sorts %s vs %s in %s", op, a.Sort, b.Sort, x)
		}
		// == in contracts is logical identity (also for floats: Go's == on
		// floats is written fpeq32/fpeq64)
		eq := fmt.Sprintf("(= %s %s)", a.S, b.S)
		if op == "!=" {
			eq = "(not " + eq + ")"
		}
		return Term{eq, "Bool", nil}, nil
	case "<", "<=", ">", ">=":
		a, err := c.tr(x.Args[0], "Int")
		if err != nil {
			return Term{}, err
		}
		b, err := c.tr(x.Args[1], "Int")
		if err != nil {
			return Term{}, err
		}
		if a.Sort != "Int" || b.Sort != "Int" {
			return Term{}, fmt.Errorf("%s on non-Int in %s", op, x)
		}
		return Term{fmt.Sprintf("(%s %s %s)", op, a.S, b.S), "Bool", nil}, nil
	case "+", "-", "*", "/", "%":
		a, err := c.tr(x.Args[0], "Int")
		if err != nil {
			return Term{}, err
		}
		b, err := c.tr(x.Args[1], "Int")
		if err != nil {
			return Term{}, err
		}
		if a.Sort == "Str" && op == "+" {
			return Term{fmt.Sprintf("(s.cat %s %s)", a.S, b.S), "Str", nil}, nil
		}
		if a.Sort != "Int" || b.Sort != "Int" {
			return Term{}, fmt.Errorf("%s on non-Int (%s,%s) in %s", op, a.Sort, b.Sort, x)
		}
		m := map[string]string{"+": "+", "-": "-", "*": "*", "/": "div", "%": "mod"}
		return Term{fmt.Sprintf("(%s %s %s)", m[op], a.S, b.S), "Int", nil}, nil
	case "++":
		a, err := c.tr(x.Args[0], "")
		if err != nil {
			return Term{}, err
		}
		b, err := c.tr(x.Args[1], a.Sort)
		if err != nil {
			return Term{}, err
		}
		if a.Sort == "Str" && b.Sort == "Str" {
			return Term{fmt.Sprintf("(s.cat %s %s)", a.S, b.S), "Str", nil}, nil
		}
		if strings.HasPrefix(a.Sort, "Sl.") && a.Sort == b.Sort {
			return Term{fmt.Sprintf("(%s.cat %s %s)", a.Sort, a.S, b.S), a.Sort, a.T}, nil
		}
		return Term{}, fmt.Errorf("++ on %s,%s in %s", a.Sort, b.Sort, x)
	}
	return Term{}, fmt.Errorf("unknown operator %s", op)
}

func (c *cenv) goType(src string) (types.Type, error) {
	src = strings.TrimSpace(src)
	switch {
	case strings.HasPrefix(src, "*"):
		t, err := c.goType(src[1:])
		if err != nil {
			return nil, err
		}
		return types.NewPointer(t), nil
	case strings.HasPrefix(src, "[]"):
		t, err := c.goType(src[2:])
		if err != nil {
			return nil, err
		}
		return types.NewSlice(t), nil
	}
	if o := types.Universe.Lookup(src); o != nil {
		if tn, ok := o.(*types.TypeName); ok {
			return tn.Type(), nil
		}
	}
	pkgs := []*types.Package{c.U.P.Bexpr.Pkg, c.U.P.Grammar.Pkg}
	if c.pkg != nil {
		pkgs = append([]*types.Package{c.pkg}, pkgs...)
	}
	if i := strings.Index(src, "."); i >= 0 {
		pn, name := src[:i], src[i+1:]
		for _, p := range pkgs {
			cands := append([]*types.Package{p}, p.Imports()...)
			for _, q := range cands {
				if q.Name() == pn {
					if o, ok := q.Scope().Lookup(name).(*types.TypeName); ok {
						return o.Type(), nil
					}
				}
			}
		}
		return nil, fmt.Errorf("cannot resolve type %q", src)
	}
	for _, p := range pkgs {
		if o, ok := p.Scope().Lookup(src).(*types.TypeName); ok {
			return o.Type(), nil
		}
	}
	return nil, fmt.Errorf("cannot resolve type %q", src)
}

func (c *cenv) tyarg(x *CExpr) (Term, error) {
	U := c.U
	t, err := c.goType(x.Ty)
	if err != nil {
		return Term{}, err
	}
	switch x.Name {
	case "tag":
		U.tagOf(t)
		return Term{tagSym(U.typeKey(t)), "Int", nil}, nil
	case "zero":
		s := U.sortOf(t)
		return Term{U.zero(s), s, t}, nil
	case "impl":
		// impl[I](tag)
		n, ok := types.Unalias(t).(*types.Named)
		if !ok {
			return Term{}, fmt.Errorf("impl of non-named %s", x.Ty)
		}
		k := namedKey(n)
		U.impls[k] = n
		a, err := c.tr(x.Args[0], "Int")
		if err != nil {
			return Term{}, err
		}
		return Term{fmt.Sprintf("(impl.%s %s)", k, a.S), "Bool", nil}, nil
	}
	if len(x.Args) != 1 {
		return Term{}, fmt.Errorf("%s[%s] needs one argument", x.Name, x.Ty)
	}
	switch x.Name {
	case "box":
		a, err := c.tr(x.Args[0], U.sortOf(t))
		if err != nil {
			return Term{}, err
		}
		return Term{U.boxTerm(t, a.S), "Any", nil}, nil
	case "unbox":
		a, err := c.tr(x.Args[0], "Any")
		if err != nil {
			return Term{}, err
		}
		return Term{fmt.Sprintf("(%s %s)", U.unboxSym(t), a.S), U.sortOf(t), t}, nil
	case "is":
		a, err := c.tr(x.Args[0], "Any")
		if err != nil {
			return Term{}, err
		}
		if _, isIface := types.Unalias(t).Underlying().(*types.Interface); isIface {
			n := types.Unalias(t).(*types.Named)
			k := namedKey(n)
			U.impls[k] = n
			return Term{fmt.Sprintf("(impl.%s (dyn %s))", k, a.S), "Bool", nil}, nil
		}
		U.tagOf(t)
		return Term{fmt.Sprintf("(= (dyn %s) %s)", a.S, tagSym(U.typeKey(t))), "Bool", nil}, nil
	}
	return Term{}, fmt.Errorf("unknown type-argument function %s", x.Name)
}

func (c *cenv) call(x *CExpr, want string) (Term, error) {
	U := c.U
	switch x.Name {
	case "old":
		n := *c
		n.inOld = true
		return n.tr(x.Args[0], want)
	case "ite":
		if len(x.Args) != 3 {
			return Term{}, fmt.Errorf("ite needs 3 args")
		}
		cnd, err := c.tr(x.Args[0], "Bool")
		if err != nil {
			return Term{}, err
		}
		a, err := c.tr(x.Args[1], want)
		if err != nil {
			return Term{}, err
		}
		b, err := c.tr(x.Args[2], a.Sort)
		if err != nil {
			return Term{}, err
		}
		if a.Sort == "?nil" {
			a, _ = c.tr(x.Args[1], b.Sort)
		}
		return Term{fmt.Sprintf("(ite %s %s %s)", cnd.S, a.S, b.S), a.Sort, a.T}, nil
	case "len":
		a, err := c.tr(x.Args[0], "")
		if err != nil {
			return Term{}, err
		}
		switch {
		case a.Sort == "Str":
			return Term{fmt.Sprintf("(s.len %s)", a.S), "Int", nil}, nil
		case strings.HasPrefix(a.Sort, "Sl."):
			t := fmt.Sprintf("(%s.len %s)", a.Sort, a.S)
			U.sideFact(fmt.Sprintf("(>= %s 0)", t)) // ground instance of len >= 0
			return Term{t, "Int", nil}, nil
		}
		return Term{}, fmt.Errorf("len of sort %s", a.Sort)
	case "snoc", "cat", "sub", "at":
		a, err := c.tr(x.Args[0], "")
		if err != nil {
			return Term{}, err
		}
		if strings.HasPrefix(a.Sort, "Sl.") {
			sg := U.sigOrSlice(a.Sort + "." + x.Name)
			if sg == nil {
				return Term{}, fmt.Errorf("no %s for %s", x.Name, a.Sort)
			}
			parts := []string{a.S}
			for i, arg := range x.Args[1:] {
				t, err := c.tr(arg, sg.Args[i+1])
				if err != nil {
					return Term{}, err
				}
				parts = append(parts, t.S)
			}
			rt := a.T
			if x.Name == "at" {
				rt = nil
			}
			return Term{fmt.Sprintf("(%s %s)", sg.Name, strings.Join(parts, " ")), sg.Res, rt}, nil
		}
	case "deref":
		a, err := c.tr(x.Args[0], "Int")
		if err != nil {
			return Term{}, err
		}
		if a.T == nil {
			return Term{}, fmt.Errorf("deref of a term without Go type in %s", x)
		}
		p, ok := types.Unalias(a.T).Underlying().(*types.Pointer)
		if !ok {
			return Term{}, fmt.Errorf("deref of non-pointer %s", a.T)
		}
		return U.loadAt(a.S, p.Elem(), c.heapTerm), nil
	case "store", "select":
		a, err := c.tr(x.Args[0], "")
		if err != nil {
			return Term{}, err
		}
		if !strings.HasPrefix(a.Sort, "(Array") {
			return Term{}, fmt.Errorf("%s on non-array sort %s", x.Name, a.Sort)
		}
		sx, _ := parseSexprs(a.Sort)
		ks, vs := sx[0].List[1].String(), sx[0].List[2].String()
		k, err := c.tr(x.Args[1], ks)
		if err != nil {
			return Term{}, err
		}
		if x.Name == "select" {
			return Term{fmt.Sprintf("(select %s %s)", a.S, k.S), vs, nil}, nil
		}
		v, err := c.tr(x.Args[2], vs)
		if err != nil {
			return Term{}, err
		}
		return Term{fmt.Sprintf("(store %s %s %s)", a.S, k.S, v.S), a.Sort, nil}, nil
	case "heap":
		// heap(key): the current heap array for a heap key given as a dotted name
		key := flatName(x.Args[0])
		h := U.heapByKey(key)
		if h == nil {
			return Term{}, fmt.Errorf("unknown heap %s", key)
		}
		return Term{c.heapTerm(h), fmt.Sprintf("(Array Int %s)", h.Elem), nil}, nil
	}
	sg, ok := U.Sigs[x.Name]
	if !ok {
		return Term{}, fmt.Errorf("unknown function %q in %s", x.Name, x)
	}
	var parts []string
	ai := 0
	for i, ps := range sg.Args {
		if fields, isB := U.bundles[ps]; isB && (ai >= len(x.Args) || len(sg.Args)-i > len(x.Args)-ai) {
			// auto-filled heap bundle
			bp := []string{"mk." + ps}
			for _, key := range fields {
				h := U.heapByKey(key)
				if h == nil {
					return Term{}, fmt.Errorf("bundle %s: unknown heap %s", ps, key)
				}
				bp = append(bp, c.heapTerm(h))
			}
			parts = append(parts, "("+strings.Join(bp, " ")+")")
			continue
		}
		if ai >= len(x.Args) {
			return Term{}, fmt.Errorf("too few arguments for %s in %s", x.Name, x)
		}
		t, err := c.tr(x.Args[ai], ps)
		if err != nil {
			return Term{}, err
		}
		if t.Sort != ps {
			return Term{}, fmt.Errorf("argument %d of %s has sort %s, want %s (in %s)", ai+1, x.Name, t.Sort, ps, x)
		}
		parts = append(parts, t.S)
		ai++
	}
	if ai != len(x.Args) {
		return Term{}, fmt.Errorf("too many arguments for %s in %s", x.Name, x)
	}
	if len(parts) == 0 {
		return Term{sg.Name, sg.Res, nil}, nil
	}
	return Term{fmt.Sprintf("(%s %s)", sg.Name, strings.Join(parts, " ")), sg.Res, nil}, nil
}

func (U *Universe) sigOrSlice(name string) *Sig {
	if sg, ok := U.Sigs[name]; ok {
		return sg
	}
	// slice function of a known slice sort
	i := strings.LastIndex(name, ".")
	s, f := name[:i], name[i+1:]
	e, ok := U.slices[s]
	if !ok {
		return nil
	}
	switch f {
	case "len":
		return &Sig{Name: name, Args: []string{s}, Res: "Int"}
	case "at":
		return &Sig{Name: name, Args: []string{s, "Int"}, Res: e}
	case "snoc":
		return &Sig{Name: name, Args: []string{s, e}, Res: s}
	case "cat":
		return &Sig{Name: name, Args: []string{s, s}, Res: s}
	case "sub":
		return &Sig{Name: name, Args: []string{s, "Int", "Int"}, Res: s}
	}
	return nil
}

// heapByKey resolves "pkg.Type.field" (or an existing key) to its heap.
func (U *Universe) heapByKey(key string) *heapInfo {
	if h, ok := U.heaps[key]; ok {
		return h
	}
	if strings.HasPrefix(key, "deref.") {
		// cell heap of a non-struct pointee, named by its sort tag
		es := strings.TrimPrefix(key, "deref.")
		known := es == "Int" || es == "Str" || es == "Any" || es == "Fn" || es == "Bool" || es == "RV" || es == "Type"
		if _, ok := U.slices[es]; ok {
			known = true
		}
		if known {
			h := &heapInfo{Key: key, Sym: "H." + key, Elem: es}
			U.heaps[key] = h
			U.heapO = append(U.heapO, key)
			return h
		}
		return nil
	}
	parts := strings.Split(key, ".")
	if len(parts) != 3 {
		return nil
	}
	for _, p := range []*types.Package{U.P.Bexpr.Pkg, U.P.Grammar.Pkg} {
		if p.Name() != parts[0] {
			continue
		}
		o := p.Scope().Lookup(parts[1])
		if o == nil {
			return nil
		}
		n, ok := o.Type().(*types.Named)
		if !ok {
			return nil
		}
		st, ok := n.Underlying().(*types.Struct)
		if !ok {
			return nil
		}
		for i := 0; i < st.NumFields(); i++ {
			if st.Field(i).Name() == parts[2] {
				return U.fieldHeap(n, st.Field(i))
			}
		}
	}
	return nil
}
