package main

import (
	"fmt"
	"go/ast"
	"go/token"
	"go/types"
	"sort"
	"strings"

	"golang.org/x/tools/go/ssa"
)

// Oblig is one proof obligation: context ∧ guard ⇒ goal.
type Oblig struct {
	Name   string
	Fn     string
	Kind   string // pre safe post inv-entry inv-pres dec frame lemma subset vacuity
	Props  []string
	Guard  string
	Goal   string
	CtxLen int
	enc    *fnEnc
	Note   string
	Pos    token.Pos
	Res    SolveResult
	// ExpectSat marks vacuity canaries (must be satisfiable).
	ExpectSat bool
	Text      string
	Clause    *Clause
	Decided   bool // decided by bxv itself (no solver query)
	lemmaDecls []string
	lemmaBody  string
	lemmaFuel  int
	lemmaOpaque []string
	GenSecs    float64
}

type addrKind int

const (
	aHeapField addrKind = iota // scalar field of a struct at ref
	aStructRef                 // ref to a struct (whole)
	aDeref                     // ref to a non-struct cell
	aLocalArr                  // element of a local array alloc
	aSliceElem                 // element of a slice value
	aGlobal                    // package-level variable
)

type addrDesc struct {
	priv  string      // non-empty: the address lies inside this own (non-escaping) variable
	kind  addrKind
	ref   string      // ref term
	heap  *heapInfo   // aHeapField / aDeref / aGlobal
	T     types.Type  // pointee type
	arr   *ssa.Alloc  // aLocalArr
	idx   int         // aLocalArr constant index
	slice Term        // aSliceElem
	idxT  string      // aSliceElem index term
}

type loopInfo struct {
	header  *ssa.BasicBlock
	blocks  map[*ssa.BasicBlock]bool
	ordinal int
	backs   []*ssa.BasicBlock // sources of back edges
	entries []*ssa.BasicBlock // sources of entry edges
	modHeap map[string]bool
	localMods map[*ssa.Alloc]bool // own variables (allocated before the loop) stored to in the loop
	con     *LoopContract
	hdrHeap heapState // heap state at header (after havoc)
	hdrPhis map[*ssa.Phi]Term
}

type fnEnc struct {
	V        *Verifier
	U        *Universe
	fn       *ssa.Function
	key      string
	con      *Contract
	decls    []string
	asserts  []string
	val      map[ssa.Value][]Term
	addr     map[ssa.Value]*addrDesc
	localArr map[*ssa.Alloc]map[int]Term
	reachIn  map[*ssa.BasicBlock]string
	reachOut map[*ssa.BasicBlock]string
	heapOut  map[*ssa.BasicBlock]heapState
	edgeCond map[[2]*ssa.BasicBlock]string
	obls     []*Oblig
	n        int
	loops    map[*ssa.BasicBlock]*loopInfo
	counters map[string]int
	heapDecl map[string]bool
	notes    []string
	imprecise []string
	params   map[string]Term
	results  []Term // current return values (when translating posts)
	allocs   []string
	curBlock *ssa.BasicBlock
	curReach string
	curHeap  heapState
	retCount int
	deferred []*ssa.Defer
	deferInfos []deferInfo
	inRecover bool
	lits     map[string][]string
	litVals  map[string][]ssa.Value
	localArrV map[*ssa.Alloc]map[int]ssa.Value
	lastStoreVal ssa.Value
	lastPre  map[string]string
	capVal   map[*ssa.FreeVar]Term
	// inlining of small uncontracted repo callees (inline.go)
	rootFn    *ssa.Function
	inlDepth  int
	inlPrefix string
	inlRets   *[]inlRet
	nonEsc    map[*ssa.Function][]*ssa.Alloc
	structParts map[string][]string // v.name -> components of the (mk.S ...) it was defined as
}

func (e *fnEnc) fresh(prefix, sort string) string {
	e.n++
	name := fmt.Sprintf("%s!%d", prefix, e.n)
	e.decls = append(e.decls, fmt.Sprintf("(declare-const %s %s)", name, sort))
	return name
}

func (e *fnEnc) assert(s string) { e.asserts = append(e.asserts, s) }

// heapEntrySym: the symbol of heap key at function entry.
func (e *fnEnc) heapEntrySym(key string) string {
	h := e.U.heaps[key]
	if h == nil {
		h = e.U.heapByKey(key)
	}
	sym := h.Sym + "@0"
	if !e.heapDecl[sym] {
		e.heapDecl[sym] = true
		srt := fmt.Sprintf("(Array Int %s)", h.Elem)
		if strings.HasPrefix(h.Key, "global.") {
			srt = h.Elem
		}
		e.decls = append(e.decls, fmt.Sprintf("(declare-const %s %s)", sym, srt))
	}
	return sym
}

func (e *fnEnc) heapVersion(h *heapInfo) string {
	e.n++
	sym := fmt.Sprintf("%s@%d", h.Sym, e.n)
	srt := fmt.Sprintf("(Array Int %s)", h.Elem)
	if strings.HasPrefix(h.Key, "global.") {
		srt = h.Elem
	}
	e.decls = append(e.decls, fmt.Sprintf("(declare-const %s %s)", sym, srt))
	return sym
}

func (e *fnEnc) heapTermIn(st heapState) func(*heapInfo) string {
	return func(h *heapInfo) string {
		if s, ok := st[h.Key]; ok {
			return s
		}
		return e.heapEntrySym(h.Key)
	}
}

func (e *fnEnc) curHeapTerm(h *heapInfo) string { return e.heapTermIn(e.curHeap)(h) }

// typeFacts asserts the sort/type invariants of a term.
func (e *fnEnc) typeFacts(t Term, guard string) {
	for _, f := range e.U.typeFactsOf(t, 2) {
		if guard != "" && guard != "true" {
			e.assert(fmt.Sprintf("(=> %s %s)", guard, f))
		} else {
			e.assert(f)
		}
	}
}

func (U *Universe) typeFactsOf(t Term, depth int) []string {
	var out []string
	switch {
	case t.Sort == "Int":
		if t.T != nil {
			if _, isPtr := types.Unalias(t.T).Underlying().(*types.Pointer); isPtr {
				out = append(out, fmt.Sprintf("(>= %s 0)", t.S))
			} else if r := intRange(t.T, t.S); r != "" {
				out = append(out, r)
			}
		}
	case t.Sort == "RV":
		out = append(out, fmt.Sprintf("(inv.RV %s)", t.S))
	case t.Sort == "Type":
		out = append(out, fmt.Sprintf("(inv.Type %s)", t.S))
	case t.Sort == "Any":
		out = append(out, fmt.Sprintf("(inv.Any %s)", t.S))
		if t.T != nil {
			if n, ok := types.Unalias(t.T).(*types.Named); ok {
				if _, isI := n.Underlying().(*types.Interface); isI && n.Obj().Pkg() != nil {
					// static interface type: dynamic type implements it (or nil)
					k := namedKey(n)
					U.impls[k] = n
					out = append(out, fmt.Sprintf("(or (= %s nilAny) (impl.%s (dyn %s)))", t.S, k, t.S))
				}
			}
		}
	case t.Sort == "Str":
		out = append(out, fmt.Sprintf("(>= (s.len %s) 0)", t.S))
	case strings.HasPrefix(t.Sort, "Sl."):
		out = append(out, fmt.Sprintf("(>= (%s.len %s) 0)", t.Sort, t.S))
		if t.T != nil {
			if a, ok := types.Unalias(t.T).Underlying().(*types.Array); ok {
				out = append(out, fmt.Sprintf("(= (%s.len %s) %d)", t.Sort, t.S, a.Len()))
			}
		}
		out = append(out, fmt.Sprintf("(<= (%s.len %s) 1152921504606846976)", t.Sort, t.S))
	default:
		if si, ok := U.structs[t.Sort]; ok && depth > 0 {
			for i := range si.Fields {
				ft := Term{fmt.Sprintf("(%s %s)", si.sel(i), t.S), si.FSorts[i], si.Fields[i].Type()}
				out = append(out, U.typeFactsOf(ft, depth-1)...)
			}
		}
	}
	return out
}

// ---------------------------------------------------------------------------

func (e *fnEnc) oblig(kind, name string, props []string, guard, goal string, pos token.Pos) *Oblig {
	name = e.inlPrefix + name
	e.counters[kind+":"+name]++
	full := fmt.Sprintf("%s#%s:%s", e.key, kind, name)
	if c := e.counters[kind+":"+name]; c > 1 {
		full = fmt.Sprintf("%s@%d", full, c)
	}
	o := &Oblig{Name: full, Fn: e.key, Kind: kind, Props: props, Guard: guard, Goal: goal, CtxLen: len(e.asserts), enc: e, Pos: pos}
	e.obls = append(e.obls, o)
	return o
}

// safety obligation + assume afterwards (execution continues only if it held).
func (e *fnEnc) safe(name string, cond string, pos token.Pos) {
	if cond == "true" {
		return
	}
	if e.con != nil && e.con.MayPanic {
		// the contract allows this function to panic: a run-time panic ends
		// the path like an explicit one (postconditions speak about normal
		// return only); no safety obligation is claimed here
		e.note("may_panic: implicit run-time checks are path conditions, not obligations")
	} else {
		e.oblig("safe", name, nil, e.curReach, cond, pos)
	}
	nr := e.fresh("reach", "Bool")
	e.assert(fmt.Sprintf("(= %s (and %s %s))", nr, e.curReach, cond))
	e.curReach = nr
}

func (e *fnEnc) get(v ssa.Value) Term {
	ts := e.getN(v)
	if len(ts) != 1 {
		panic(fmt.Sprintf("%s: value %s (%T) is a %d-tuple", e.key, v.Name(), v, len(ts)))
	}
	return ts[0]
}

func (e *fnEnc) getN(v ssa.Value) []Term {
	if ts, ok := e.val[v]; ok {
		return ts
	}
	U := e.U
	switch v := v.(type) {
	case *ssa.Const:
		t := U.constTerm(v)
		return []Term{t}
	case *ssa.Function:
		c := U.fnCtorOf(v)
		return []Term{{c.Sym, "Fn", v.Type()}}
	case *ssa.Global:
		// address of a global: only meaningful through loads/stores
		e.addr[v] = &addrDesc{kind: aGlobal, heap: U.globalHeap(v), T: v.Type().(*types.Pointer).Elem()}
		t := Term{fmt.Sprintf("gaddr.%s.%s", pkgShort(v.Pkg.Pkg), v.Name()), "Int", v.Type()}
		return []Term{t}
	case *ssa.Builtin:
		return []Term{{"fn.nil", "Fn", v.Type()}}
	}
	// not yet defined (value from a block not yet processed: havoc)
	t := e.havocValue(v, "undef")
	e.val[v] = t
	return t
}

func (e *fnEnc) havocValue(v ssa.Value, why string) []Term {
	if tup, ok := v.Type().(*types.Tuple); ok {
		var out []Term
		for i := 0; i < tup.Len(); i++ {
			s := e.U.sortOf(tup.At(i).Type())
			t := Term{e.fresh("hv."+why, s), s, tup.At(i).Type()}
			e.typeFacts(t, "")
			out = append(out, t)
		}
		return out
	}
	s := e.U.sortOf(v.Type())
	t := Term{e.fresh("hv."+why, s), s, v.Type()}
	e.typeFacts(t, "")
	return []Term{t}
}

func (e *fnEnc) set(v ssa.Value, t Term) {
	t.T = v.Type()
	e.val[v] = []Term{t}
}

// define introduces a named constant for an SSA value (keeps terms small).
func (e *fnEnc) define(v ssa.Value, t Term) Term {
	name := e.fresh("v."+v.Name(), t.Sort)
	e.assert(fmt.Sprintf("(= %s %s)", name, t.S))
	if si := e.U.structs[t.Sort]; si != nil && strings.HasPrefix(t.S, "("+si.ctor()+" ") {
		// a struct value spelled out as (mk.S c1 ... cn): remember the components so
		// that a later field extraction is the component, not a selector the
		// solver has to simplify
		if parts := splitTopLevel(t.S[len(si.ctor())+2 : len(t.S)-1]); len(parts) == len(si.Fields) {
			if e.structParts == nil {
				e.structParts = map[string][]string{}
			}
			e.structParts[name] = parts
		}
	}
	nt := Term{name, t.Sort, v.Type()}
	e.val[v] = []Term{nt}
	return nt
}

// ---------------------------------------------------------------------------
// loops

func (e *fnEnc) findLoops() {
	fn := e.fn
	e.loops = map[*ssa.BasicBlock]*loopInfo{}
	for _, b := range fn.Blocks {
		for _, s := range b.Succs {
			if s.Dominates(b) {
				li := e.loops[s]
				if li == nil {
					li = &loopInfo{header: s, blocks: map[*ssa.BasicBlock]bool{s: true}, modHeap: map[string]bool{}}
					e.loops[s] = li
				}
				li.backs = append(li.backs, b)
				// natural loop body
				stack := []*ssa.BasicBlock{b}
				for len(stack) > 0 {
					x := stack[len(stack)-1]
					stack = stack[:len(stack)-1]
					if li.blocks[x] {
						continue
					}
					li.blocks[x] = true
					stack = append(stack, x.Preds...)
				}
			}
		}
	}
	// ordinals by source position of header's first positioned instruction
	var hs []*loopInfo
	for _, li := range e.loops {
		hs = append(hs, li)
		for _, p := range li.header.Preds {
			if !li.blocks[p] {
				li.entries = append(li.entries, p)
			}
		}
	}
	posOf := func(li *loopInfo) token.Pos {
		best := token.NoPos
		for b := range li.blocks {
			for _, in := range b.Instrs {
				if p := in.Pos(); p.IsValid() && (best == token.NoPos || p < best) {
					best = p
				}
			}
		}
		return best
	}
	sort.Slice(hs, func(i, j int) bool {
		pi, pj := posOf(hs[i]), posOf(hs[j])
		if pi != pj {
			return pi < pj
		}
		return hs[i].header.Index < hs[j].header.Index
	})
	for i, li := range hs {
		li.ordinal = i + 1
		if e.con != nil {
			li.con = e.con.Loops[li.ordinal]
		}
		// modified heaps (stores into the activation's own variables hit their
		// private heaps only: addrKeys is privatisation-aware)
		for b := range li.blocks {
			for _, in := range b.Instrs {
				for _, k := range e.writesOf(in) {
					li.modHeap[k] = true
				}
			}
		}
	}
}

// writesOf lists the heap keys an instruction may write ("*" = everything).
func (e *fnEnc) writesOf(in ssa.Instruction) []string {
	switch in := in.(type) {
	case *ssa.Store:
		return e.addrKeys(in.Addr)
	case *ssa.MapUpdate:
		return nil
	case ssa.CallInstruction:
		cc := in.Common()
		key := calleeKey(cc)
		if strings.HasPrefix(key, "builtin.") {
			return nil
		}
		if key != "" {
			if c := e.V.CS.ByKey[key]; c != nil {
				if c.HasAssigns {
					return stripLoc(c.Assigns)
				}
				if c.External {
					return nil
				}
				if f := e.V.P.Funcs[key]; f != nil {
					var out []string
					for k := range e.V.inferredWrites(f) {
						out = append(out, k)
					}
					sort.Strings(out)
					return out
				}
				return []string{"*"}
			}
			if callee := cc.StaticCallee(); inRepo(e.V, callee) {
				var out []string
				for k := range e.V.inferredWrites(callee) {
					out = append(out, k)
				}
				sort.Strings(out)
				return out
			}
			if cc.StaticCallee() != nil {
				return nil // external without contract: assumed not to write repo heaps (A-EXT-PURE)
			}
			return []string{"*"}
		}
		// indirect: union of candidates
		var out []string
		for _, c := range e.V.candidates(cc.Signature()) {
			cn := e.V.CS.ByKey[c.Key]
			if cn == nil || !cn.HasAssigns {
				if cn == nil {
					for k := range e.V.inferredWrites(c.Fn) {
						out = append(out, k)
					}
					continue
				}
				return []string{"*"}
			}
			out = append(out, stripLoc(cn.Assigns)...)
		}
		if sigIsParserCallback(cc.Signature()) {
			for _, k2 := range sortedFuncKeys(e.V.P.Funcs) {
				if strings.HasPrefix(k2, "grammar.parser.callon") {
					for k := range e.V.inferredWrites(e.V.P.Funcs[k2]) {
						out = append(out, k)
					}
				}
			}
		}
		sort.Strings(out)
		return out
	}
	return nil
}

// addrKeys: heap keys a store through addr may touch (syntactic).
func (e *fnEnc) addrKeys(a ssa.Value) []string {
	U := e.U
	if al, ok := rootOf(a).(*ssa.Alloc); ok && U.priv == "" {
		if id := privID(al); id != "" {
			U.priv = id
			defer func() { U.priv = "" }()
		}
	}
	switch a := a.(type) {
	case *ssa.FieldAddr:
		pt := a.X.Type().Underlying().(*types.Pointer).Elem()
		st := pt.Underlying().(*types.Struct)
		f := st.Field(a.Field)
		if _, isStruct := types.Unalias(f.Type()).Underlying().(*types.Struct); isStruct && U.sortOf(f.Type()) != "RV" {
			return U.structHeapKeys(f.Type())
		}
		return []string{U.heapOfField(pt, f).Key}
	case *ssa.Global:
		return []string{U.globalHeap(a).Key}
	case *ssa.IndexAddr:
		return nil
	case *ssa.Alloc:
		pt := a.Type().Underlying().(*types.Pointer).Elem()
		if _, ok := pt.Underlying().(*types.Array); ok {
			return nil
		}
		if _, ok := pt.Underlying().(*types.Struct); ok && U.sortOf(pt) != "RV" {
			return U.structHeapKeys(pt)
		}
		return []string{U.derefHeap(pt).Key}
	default:
		pt := a.Type().Underlying().(*types.Pointer).Elem()
		if _, ok := pt.Underlying().(*types.Struct); ok && U.sortOf(pt) != "RV" {
			return U.structHeapKeys(pt)
		}
		return []string{U.derefHeap(pt).Key}
	}
}

func (U *Universe) structHeapKeys(t types.Type) []string {
	st := types.Unalias(t).Underlying().(*types.Struct)
	var out []string
	for i := 0; i < st.NumFields(); i++ {
		f := st.Field(i)
		if _, ok := types.Unalias(f.Type()).Underlying().(*types.Struct); ok && U.sortOf(f.Type()) != "RV" {
			out = append(out, U.structHeapKeys(f.Type())...)
		} else {
			out = append(out, U.heapOfField(t, f).Key)
		}
	}
	return out
}

// ---------------------------------------------------------------------------

// rpo returns blocks in reverse post-order ignoring back edges.
func (e *fnEnc) rpo() []*ssa.BasicBlock {
	seen := map[*ssa.BasicBlock]bool{}
	var post []*ssa.BasicBlock
	var dfs func(b *ssa.BasicBlock)
	dfs = func(b *ssa.BasicBlock) {
		seen[b] = true
		for _, s := range b.Succs {
			if s.Dominates(b) { // back edge
				continue
			}
			if !seen[s] {
				dfs(s)
			}
		}
		post = append(post, b)
	}
	dfs(e.fn.Blocks[0])
	if e.fn.Recover != nil && !seen[e.fn.Recover] {
		// recover block handled separately
	}
	for i, j := 0, len(post)-1; i < j; i, j = i+1, j-1 {
		post[i], post[j] = post[j], post[i]
	}
	return post
}

func (e *fnEnc) baseEnv() *cenv {
	return &cenv{U: e.U, vars: map[string]Term{}, pkg: e.V.P.typesPkg(e.fn), heapSym: e.heapEntrySym}
}

// encode builds the VC context and obligations of the function.
func (V *Verifier) encode(fn *ssa.Function) (enc *fnEnc, err error) {
	e := &fnEnc{V: V, U: V.U, fn: fn, key: funcKey(fn), val: map[ssa.Value][]Term{}, addr: map[ssa.Value]*addrDesc{},
		localArr: map[*ssa.Alloc]map[int]Term{}, reachIn: map[*ssa.BasicBlock]string{}, reachOut: map[*ssa.BasicBlock]string{},
		heapOut: map[*ssa.BasicBlock]heapState{}, edgeCond: map[[2]*ssa.BasicBlock]string{}, counters: map[string]int{},
		heapDecl: map[string]bool{}, params: map[string]Term{}, lits: map[string][]string{}, litVals: map[string][]ssa.Value{}, localArrV: map[*ssa.Alloc]map[int]ssa.Value{}, capVal: map[*ssa.FreeVar]Term{}}
	e.con = V.CS.ByKey[e.key]
	V.U.emit = e.assert
	defer func() { V.U.emit = nil }()
	defer func() {
		if r := recover(); r != nil {
			if s, ok := r.(encErr); ok {
				err = fmt.Errorf("%s: %s", e.key, string(s))
				return
			}
			panic(r)
		}
	}()
	if len(fn.Blocks) == 0 {
		return nil, fmt.Errorf("%s: no body", e.key)
	}
	U := e.U
	// parameters (receiver first) and free variables
	var pnames []string
	if e.con != nil {
		pnames = e.con.Params
	}
	for i, p := range fn.Params {
		s := U.sortOf(p.Type())
		t := Term{e.fresh("p."+p.Name(), s), s, p.Type()}
		e.val[p] = []Term{t}
		e.typeFacts(t, "")
		if i < len(pnames) {
			e.params[pnames[i]] = t
		}
		e.params["$"+p.Name()] = t
	}
	if e.con == nil {
		// no contract: the implicit one is "pointer parameters are not nil" -
		// assumed here, and an obligation at every call site inside /repo that
		// reaches an uncontracted function (calls.go)
		for _, p := range fn.Params {
			if _, isPtr := p.Type().Underlying().(*types.Pointer); isPtr {
				e.assert(fmt.Sprintf("(not (= %s 0))", e.val[p][0].S))
				e.note("implicit contract of an uncontracted function: pointer parameter " + p.Name() + " != nil (checked at its call sites in /repo)")
			}
		}
	}
	ctor := U.fnCtorOf(fn)
	for i, fv := range fn.FreeVars {
		if ctor.ByVal[i] {
			el := fv.Type().Underlying().(*types.Pointer).Elem()
			s := U.sortOf(el)
			t := Term{e.fresh("fv."+fv.Name(), s), s, el}
			e.capVal[fv] = t
			e.val[fv] = []Term{t}
			e.typeFacts(t, "")
			e.params[fv.Name()] = t
			continue
		}
		s := U.sortOf(fv.Type())
		t := Term{e.fresh("fv."+fv.Name(), s), s, fv.Type()}
		e.val[fv] = []Term{t}
		e.typeFacts(t, "")
		e.params[fv.Name()] = t
	}
	if len(fn.FreeVars) > 0 {
		// self: the closure value
		parts := []string{ctor.Sym}
		for _, fv := range fn.FreeVars {
			parts = append(parts, e.val[fv][0].S)
		}
		e.params["self"] = Term{"(" + strings.Join(parts, " ") + ")", "Fn", fn.Type()}
	} else {
		e.params["self"] = Term{ctor.Sym, "Fn", fn.Type()}
	}
	if e.con != nil && len(e.con.Params) != len(fn.Params) {
		return nil, fmt.Errorf("%s: contract binds %d parameters, function has %d", e.key, len(e.con.Params), len(fn.Params))
	}
	// requires
	env := e.baseEnv()
	env.vars = e.params
	env.heap = heapState{}
	env.old = env.heap
	if e.con != nil {
		for _, r := range e.con.Requires {
			t, err := env.tr(r.Expr, "Bool")
			if err != nil {
				return nil, fmt.Errorf("%s:%d: requires: %v", r.File, r.Line, err)
			}
			e.assert(t.S)
		}
	}
	if e.con != nil {
		for _, r := range e.con.Assumes {
			t, err := env.tr(r.Expr, "Bool")
			if err != nil {
				return nil, fmt.Errorf("%s:%d: assume: %v", r.File, r.Line, err)
			}
			e.assert(t.S)
			e.notes = append(e.notes, "ASSUMED (not an obligation of callers): "+r.Text)
		}
	}
	e.findLoops()
	order := e.rpo()
	entry := fn.Blocks[0]
	for _, b := range order {
		e.curBlock = b
		li := e.loops[b]
		if b == entry {
			r := e.fresh("reach.b0", "Bool")
			e.assert(r)
			e.reachIn[b] = r
			e.curHeap = heapState{}
		} else if li == nil {
			e.mergeInto(b, b.Preds)
		} else {
			e.enterLoop(b, li)
		}
		e.curReach = e.reachIn[b]
		for _, in := range b.Instrs {
			e.instr(in)
		}
		e.reachOut[b] = e.curReach
		e.heapOut[b] = e.curHeap
		// edge conditions
		if len(b.Succs) == 2 {
			iff := b.Instrs[len(b.Instrs)-1].(*ssa.If)
			c := e.get(iff.Cond).S
			e.edgeCond[[2]*ssa.BasicBlock{b, b.Succs[0]}] = fmt.Sprintf("(and %s %s)", e.curReach, c)
			e.edgeCond[[2]*ssa.BasicBlock{b, b.Succs[1]}] = fmt.Sprintf("(and %s (not %s))", e.curReach, c)
		} else if len(b.Succs) == 1 {
			e.edgeCond[[2]*ssa.BasicBlock{b, b.Succs[0]}] = e.curReach
		}
		// back edges out of this block
		for _, s := range b.Succs {
			if lj := e.loops[s]; lj != nil && s.Dominates(b) {
				e.backEdge(b, lj)
			}
		}
	}
	e.recoverBlock()
	return e, nil
}

type encErr string

func (e *fnEnc) fail(format string, args ...any) {
	panic(encErr(fmt.Sprintf(format, args...)))
}

// mergeInto computes reach/heap/phi state at the entry of b from preds.
func (e *fnEnc) mergeInto(b *ssa.BasicBlock, preds []*ssa.BasicBlock) {
	var conds []string
	var live []*ssa.BasicBlock
	for _, p := range preds {
		c, ok := e.edgeCond[[2]*ssa.BasicBlock{p, b}]
		if !ok {
			continue // unprocessed predecessor (unreachable or back edge)
		}
		conds = append(conds, c)
		live = append(live, p)
	}
	r := e.fresh(fmt.Sprintf("reach.b%d", b.Index), "Bool")
	switch len(conds) {
	case 0:
		e.assert(fmt.Sprintf("(= %s false)", r))
	case 1:
		e.assert(fmt.Sprintf("(= %s %s)", r, conds[0]))
	default:
		e.assert(fmt.Sprintf("(= %s (or %s))", r, strings.Join(conds, " ")))
	}
	e.reachIn[b] = r
	// heap merge
	keys := map[string]bool{}
	for _, p := range live {
		for k := range e.heapOut[p] {
			keys[k] = true
		}
	}
	e.curHeap = heapState{}
	for _, k := range sortedBoolKeys(keys) {
		same := true
		var first string
		for i, p := range live {
			s := e.heapTermIn(e.heapOut[p])(e.U.heaps[k])
			if i == 0 {
				first = s
			} else if s != first {
				same = false
			}
		}
		if same {
			e.curHeap[k] = first
			continue
		}
		nv := e.heapVersion(e.U.heaps[k])
		for i, p := range live {
			s := e.heapTermIn(e.heapOut[p])(e.U.heaps[k])
			e.assert(fmt.Sprintf("(=> %s (= %s %s))", conds[i], nv, s))
		}
		e.curHeap[k] = nv
	}
	// phis
	for _, in := range b.Instrs {
		phi, ok := in.(*ssa.Phi)
		if !ok {
			break
		}
		s := e.U.sortOf(phi.Type())
		name := e.fresh("phi."+phi.Name(), s)
		for i, p := range b.Preds {
			c, ok := e.edgeCond[[2]*ssa.BasicBlock{p, b}]
			if !ok {
				continue
			}
			e.assert(fmt.Sprintf("(=> %s (= %s %s))", c, name, e.get(phi.Edges[i]).S))
		}
		e.val[phi] = []Term{{name, s, phi.Type()}}
	}
}

func sortedBoolKeys(m map[string]bool) []string {
	ks := make([]string, 0, len(m))
	for k := range m {
		ks = append(ks, k)
	}
	sort.Strings(ks)
	return ks
}

// loopEnv builds the contract environment for a loop's invariants in the
// state given by (phi valuation, heap).
func (e *fnEnc) loopEnv(li *loopInfo, phiVal func(*ssa.Phi) Term, heap heapState) *cenv {
	env := e.baseEnv()
	vars := map[string]Term{}
	for k, v := range e.params {
		vars[k] = v
		vars["old:"+k] = v
	}
	// named locals: allocs (address-taken) anywhere in the function that dominate the header
	for _, b := range e.fn.Blocks {
		if !b.Dominates(li.header) || b == li.header {
			continue
		}
		for _, in := range b.Instrs {
			switch in := in.(type) {
			case *ssa.Alloc:
				if in.Comment != "" {
					if d := e.addr[in]; d != nil && (d.kind == aStructRef || d.kind == aDeref) {
						vars[in.Comment] = e.loadDesc(d, heap)
						vars["&"+in.Comment] = Term{d.ref, "Int", in.Type()}
					}
				}
			}
		}
	}
	// named phis in blocks that dominate the header (source variables merged
	// before the loop); the closest dominator wins
	for _, b := range e.fn.DomPreorder() {
		if !b.Dominates(li.header) || b == li.header {
			continue
		}
		for _, in := range b.Instrs {
			switch in := in.(type) {
			case *ssa.Phi:
				if in.Comment != "" {
					if ts, ok := e.val[in]; ok && len(ts) == 1 {
						vars[in.Comment] = ts[0]
					}
				}
			case *ssa.DebugRef:
				// a source-level local bound to an SSA value
				if id, ok := in.Expr.(*ast.Ident); ok && !in.IsAddr {
					if _, isParam := e.params[id.Name]; isParam {
						continue
					}
					if ts, ok := e.val[in.X]; ok && len(ts) == 1 && ts[0].Sort != "?addr" {
						vars[id.Name] = ts[0]
					}
				}
			}
		}
	}
	// address-taken locals (Allocs) win over DebugRef names: their current
	// value is what the heap holds, not the value they were initialised with
	for _, b := range e.fn.Blocks {
		if !b.Dominates(li.header) || b == li.header {
			continue
		}
		for _, in := range b.Instrs {
			if al, ok := in.(*ssa.Alloc); ok && al.Comment != "" {
				if d := e.addr[al]; d != nil && (d.kind == aStructRef || d.kind == aDeref) {
					vars[al.Comment] = e.loadDesc(d, heap)
					vars["&"+al.Comment] = Term{d.ref, "Int", al.Type()}
				}
			}
		}
	}
	// any SSA value defined before the loop may be referenced as $tN
	for v, ts := range e.val {
		if len(ts) == 1 {
			if _, isPhi := v.(*ssa.Phi); isPhi {
				continue
			}
			if in, ok := v.(ssa.Instruction); ok && in.Block() != nil && in.Block().Dominates(li.header) && in.Block() != li.header {
				vars["$"+v.Name()] = ts[0]
			}
		}
	}
	for _, in := range li.header.Instrs {
		phi, ok := in.(*ssa.Phi)
		if !ok {
			break
		}
		t := phiVal(phi)
		if phi.Comment != "" {
			vars[phi.Comment] = t
		}
		vars["$"+phi.Name()] = t
	}
	// range-over-slice loops: the ranged slice is `rangeslice`
	if last, ok := li.header.Instrs[len(li.header.Instrs)-1].(*ssa.If); ok {
		if cmp, ok := last.Cond.(*ssa.BinOp); ok {
			if call, ok := cmp.Y.(*ssa.Call); ok {
				if b, ok := call.Call.Value.(*ssa.Builtin); ok && b.Name() == "len" {
					if ts, ok := e.val[call.Call.Args[0]]; ok && len(ts) == 1 {
						vars["rangeslice"] = ts[0]
					}
				}
			}
		}
	}
	// an index loop of the canonical shape `for k := 0; k < len(s); k++` is the
	// same loop as `for k := range s`: let contracts written for one shape
	// (rangeindex = index of the last element processed, rangeslice = s) read
	// on the other
	if _, has := vars["rangeindex"]; !has {
		if last, ok := li.header.Instrs[len(li.header.Instrs)-1].(*ssa.If); ok {
			if cmp, ok := last.Cond.(*ssa.BinOp); ok && cmp.Op == token.LSS {
				if phi, ok := cmp.X.(*ssa.Phi); ok && phi.Block() == li.header && isCountingPhi(phi, li) {
					t := phiVal(phi)
					vars["rangeindex"] = Term{S: fmt.Sprintf("(- %s 1)", t.S), Sort: "Int", T: phi.Type()}
				}
			}
		}
	}
	env.vars = vars
	env.heap = heap
	env.old = heapState{}
	return env
}

// isCountingPhi: a header phi that starts at the constant 0 on every entry
// edge and is itself plus one on every back edge.
func isCountingPhi(phi *ssa.Phi, li *loopInfo) bool {
	for i, p := range phi.Block().Preds {
		ev := phi.Edges[i]
		if li.blocks[p] {
			b, ok := ev.(*ssa.BinOp)
			if !ok || b.Op != token.ADD || b.X != ssa.Value(phi) {
				return false
			}
			c, ok := b.Y.(*ssa.Const)
			if !ok || c.Value == nil || c.Int64() != 1 {
				return false
			}
		} else {
			c, ok := ev.(*ssa.Const)
			if !ok || c.Value == nil || c.Int64() != 0 {
				return false
			}
		}
	}
	return true
}

func (e *fnEnc) loopInvariants(li *loopInfo, env *cenv) []struct {
	c *Clause
	t string
} {
	var out []struct {
		c *Clause
		t string
	}
	if li.con == nil {
		return out
	}
	for _, inv := range li.con.Invariants {
		t, err := env.tr(inv.Expr, "Bool")
		if err != nil {
			e.fail("%s:%d: invariant: %v", inv.File, inv.Line, err)
		}
		out = append(out, struct {
			c *Clause
			t string
		}{inv, t.S})
	}
	return out
}

func (e *fnEnc) enterLoop(h *ssa.BasicBlock, li *loopInfo) {
	U := e.U
	// entry obligations
	var conds []string
	for _, p := range li.entries {
		c, ok := e.edgeCond[[2]*ssa.BasicBlock{p, h}]
		if !ok {
			continue
		}
		conds = append(conds, c)
		idx := predIndex(h, p)
		env := e.loopEnv(li, func(phi *ssa.Phi) Term { return e.get(phi.Edges[idx]) }, e.heapOut[p])
		for _, iv := range e.loopInvariants(li, env) {
			o := e.oblig("inv-entry", fmt.Sprintf("loop%d:%s", li.ordinal, clauseName(iv.c)), iv.c.Props, c, iv.t, h.Instrs[0].Pos())
			o.Clause = iv.c
		}
	}
	r := e.fresh(fmt.Sprintf("reach.loop%d", li.ordinal), "Bool")
	if len(conds) == 0 {
		e.assert(fmt.Sprintf("(= %s false)", r))
	} else {
		e.assert(fmt.Sprintf("(=> %s (or %s))", r, strings.Join(conds, " ")))
	}
	e.reachIn[h] = r
	// heap: unmodified keys flow from entries; modified keys are havocked
	e.curHeap = heapState{}
	keys := map[string]bool{}
	for _, p := range li.entries {
		for k := range e.heapOut[p] {
			keys[k] = true
		}
	}
	all := li.modHeap["*"]
	for k := range li.modHeap {
		if k != "*" {
			if U.heaps[k] == nil {
				U.heapByKey(k)
			}
			keys[k] = true
		}
	}
	if all {
		for _, k := range U.heapO {
			keys[k] = true
		}
	}
	for _, k := range sortedBoolKeys(keys) {
		hi := U.heaps[k]
		if hi == nil {
			continue
		}
		if all || li.modHeap[k] {
			e.curHeap[k] = e.heapVersion(hi)
			continue
		}
		var first string
		same := true
		for i, p := range li.entries {
			s := e.heapTermIn(e.heapOut[p])(hi)
			if i == 0 {
				first = s
			} else if s != first {
				same = false
			}
		}
		if same && first != "" {
			e.curHeap[k] = first
		} else {
			nv := e.heapVersion(hi)
			for i, p := range li.entries {
				if i < len(conds) {
					e.assert(fmt.Sprintf("(=> %s (= %s %s))", conds[i], nv, e.heapTermIn(e.heapOut[p])(hi)))
				}
			}
			e.curHeap[k] = nv
		}
	}
	if all {
		e.imprecise = append(e.imprecise, fmt.Sprintf("loop %d havocs every heap (uncontracted callee or unknown frame)", li.ordinal))
	}
	// frame for the activation's own variables: a local allocated before the
	// loop whose address never leaves this function and that no instruction
	// of the loop stores to keeps its contents, although the field heaps it
	// lives in are havocked (they are shared with every other object of the
	// type)
	for _, al := range e.frozenAllocs(li) {
		t, ok := e.val[al]
		if !ok || len(t) == 0 {
			continue
		}
		pt := al.Type().Underlying().(*types.Pointer).Elem()
		for _, cell := range e.allocCells(t[0].S, pt) {
			hi := U.heaps[cell[0]]
			if hi == nil || !(all || li.modHeap[cell[0]]) {
				continue
			}
			nv, ok := e.curHeap[cell[0]]
			if !ok {
				continue
			}
			for i, p := range li.entries {
				if i < len(conds) {
					e.assert(fmt.Sprintf("(=> %s (= (select %s %s) (select %s %s)))", conds[i], nv, cell[1], e.heapTermIn(e.heapOut[p])(hi), cell[1]))
				}
			}
		}
	}
	// phis: fresh
	li.hdrPhis = map[*ssa.Phi]Term{}
	for _, in := range h.Instrs {
		phi, ok := in.(*ssa.Phi)
		if !ok {
			break
		}
		s := U.sortOf(phi.Type())
		t := Term{e.fresh(fmt.Sprintf("loop%d.%s", li.ordinal, phi.Name()), s), s, phi.Type()}
		e.typeFacts(t, "")
		e.val[phi] = []Term{t}
		li.hdrPhis[phi] = t
	}
	li.hdrHeap = e.curHeap.clone()
	env := e.loopEnv(li, func(phi *ssa.Phi) Term { return li.hdrPhis[phi] }, e.curHeap)
	for _, iv := range e.loopInvariants(li, env) {
		e.assert(fmt.Sprintf("(=> %s %s)", r, iv.t))
	}
	if li.con == nil {
		e.notes = append(e.notes, fmt.Sprintf("loop %d has no invariant (state havocked)", li.ordinal))
	}
}

func predIndex(b, p *ssa.BasicBlock) int {
	for i, x := range b.Preds {
		if x == p {
			return i
		}
	}
	return -1
}

func clauseName(c *Clause) string {
	if c.Label != "" {
		return c.Label
	}
	return fmt.Sprintf("L%d", c.Line)
}

func (e *fnEnc) backEdge(src *ssa.BasicBlock, li *loopInfo) {
	c := e.edgeCond[[2]*ssa.BasicBlock{src, li.header}]
	idx := predIndex(li.header, src)
	env := e.loopEnv(li, func(phi *ssa.Phi) Term { return e.get(phi.Edges[idx]) }, e.heapOut[src])
	for _, iv := range e.loopInvariants(li, env) {
		o := e.oblig("inv-pres", fmt.Sprintf("loop%d:%s", li.ordinal, clauseName(iv.c)), iv.c.Props, c, iv.t, li.header.Instrs[0].Pos())
		o.Clause = iv.c
	}
	if li.con != nil && li.con.Decreases != nil {
		d := li.con.Decreases
		henv := e.loopEnv(li, func(phi *ssa.Phi) Term { return li.hdrPhis[phi] }, li.hdrHeap)
		v0, err := henv.tr(d.Expr, "Int")
		if err != nil {
			e.fail("%s:%d: decreases: %v", d.File, d.Line, err)
		}
		v1, err := env.tr(d.Expr, "Int")
		if err != nil {
			e.fail("%s:%d: decreases: %v", d.File, d.Line, err)
		}
		o := e.oblig("dec", fmt.Sprintf("loop%d", li.ordinal), d.Props, c, fmt.Sprintf("(and (>= %s 0) (< %s %s))", v0.S, v1.S, v0.S), li.header.Instrs[0].Pos())
		o.Clause = d
	}
}

func stripLoc(as []string) []string {
	out := make([]string, len(as))
	for i, a := range as {
		if j := strings.Index(a, "@"); j >= 0 {
			a = a[:j]
		}
		out[i] = a
	}
	return out
}

// allocCells lists the (heap key, reference) cells that make up an object of
// type t at ref: scalar fields at ref, fields of embedded structs at their
// derived references; a non-struct variable is one cell of its deref heap.
func (e *fnEnc) allocCells(ref string, t types.Type) [][2]string {
	U := e.U
	st, ok := types.Unalias(t).Underlying().(*types.Struct)
	if !ok || U.sortOf(t) == "RV" {
		return [][2]string{{U.derefHeap(t).Key, ref}}
	}
	var out [][2]string
	for i := 0; i < st.NumFields(); i++ {
		f := st.Field(i)
		if isStructT(U, f.Type()) {
			out = append(out, e.allocCells(U.embRef(ref, t, f), f.Type())...)
		} else {
			out = append(out, [2]string{U.heapOfField(t, f).Key, ref})
		}
	}
	return out
}

// preserveLocals: a callee (or anything else that havocs field heaps by key)
// cannot reach the activation's own variables whose address never leaves this
// function: their cells are the same in the post heap as in the pre heap.
func (e *fnEnc) preserveLocals(pre, post heapState) {
	for _, al := range e.nonEscapingAllocs() {
		t, ok := e.val[al]
		if !ok || len(t) == 0 {
			continue
		}
		pt := al.Type().Underlying().(*types.Pointer).Elem()
		for _, cell := range e.allocCells(t[0].S, pt) {
			hi := e.U.heaps[cell[0]]
			if hi == nil {
				continue
			}
			a, b := e.heapTermIn(pre)(hi), e.heapTermIn(post)(hi)
			if a == b {
				continue
			}
			e.assert(fmt.Sprintf("(= (select %s %s) (select %s %s))", b, cell[1], a, cell[1]))
		}
	}
}

func (e *fnEnc) nonEscapingAllocs() []*ssa.Alloc {
	if e.nonEsc == nil {
		e.nonEsc = map[*ssa.Function][]*ssa.Alloc{}
	}
	if r, ok := e.nonEsc[e.fn]; ok {
		return r
	}
	var out []*ssa.Alloc
	for _, b := range e.fn.Blocks {
		for _, in := range b.Instrs {
			al, ok := in.(*ssa.Alloc)
			if !ok {
				continue
			}
			if _, isArr := al.Type().Underlying().(*types.Pointer).Elem().Underlying().(*types.Array); isArr {
				continue
			}
			if addressStaysLocal(al, nil) || addressStaysInOwnClosures(al) {
				out = append(out, al)
			}
		}
	}
	e.nonEsc[e.fn] = out
	return out
}

// addressStaysInOwnClosures: like addressStaysLocal, but the address may also
// be captured by function literals of this function that are only deferred or
// called on the spot (never stored, passed or returned): no *other* function
// can then reach the variable, so a call to another function cannot change
// it. (Such a variable still lives in the shared heaps - the literal reads it
// through its free variable - but it is preserved across calls.)
func addressStaysInOwnClosures(al *ssa.Alloc) bool {
	refs := al.Referrers()
	if refs == nil {
		return false
	}
	sawClosure := false
	for _, r := range *refs {
		switch r := r.(type) {
		case *ssa.FieldAddr:
			for _, rr := range *r.Referrers() {
				switch rr := rr.(type) {
				case *ssa.UnOp:
					if rr.Op != token.MUL {
						return false
					}
				case *ssa.Store:
					if rr.Val == ssa.Value(r) {
						return false
					}
				case *ssa.DebugRef:
				default:
					return false
				}
			}
		case *ssa.UnOp:
			if r.Op != token.MUL {
				return false
			}
		case *ssa.Store:
			if r.Val == ssa.Value(al) {
				return false
			}
		case *ssa.DebugRef:
		case *ssa.MakeClosure:
			sawClosure = true
			mrefs := r.Referrers()
			if mrefs == nil {
				return false
			}
			for _, mr := range *mrefs {
				switch mr := mr.(type) {
				case *ssa.Defer:
					if mr.Call.Value != ssa.Value(r) {
						return false
					}
				case *ssa.Call:
					if mr.Call.Value != ssa.Value(r) {
						return false
					}
				case *ssa.DebugRef:
				default:
					return false
				}
			}
		default:
			return false
		}
	}
	return sawClosure
}

// addressStaysLocal: the address (and the addresses of fields) is used only
// to load, to store to, and to address fields; with inLoop given, additionally
// no store to it happens in one of those blocks.
func addressStaysLocal(al *ssa.Alloc, inLoop map[*ssa.BasicBlock]bool) bool {
	okAll := true
	seen := map[ssa.Value]bool{}
	var visit func(v ssa.Value)
	visit = func(v ssa.Value) {
		if seen[v] || !okAll {
			return
		}
		seen[v] = true
		refs := v.Referrers()
		if refs == nil {
			okAll = false
			return
		}
		for _, r := range *refs {
			switch r := r.(type) {
			case *ssa.FieldAddr:
				visit(r)
			case *ssa.UnOp:
				if r.Op != token.MUL {
					okAll = false
				}
			case *ssa.Store:
				if r.Val == v {
					okAll = false // the address itself is stored somewhere
				} else if inLoop != nil && inLoop[r.Block()] {
					okAll = false // written inside the loop
				}
			case *ssa.DebugRef:
			default:
				okAll = false
			}
		}
	}
	visit(al)
	return okAll
}

// frozenAllocs: the Allocs of this function defined outside the loop, whose
// address is used only for field addressing, loads and stores (never passed,
// stored or captured), and that no store inside the loop targets.
func (e *fnEnc) frozenAllocs(li *loopInfo) []*ssa.Alloc {
	var out []*ssa.Alloc
	for _, b := range e.fn.Blocks {
		if li.blocks[b] {
			continue
		}
		for _, in := range b.Instrs {
			al, ok := in.(*ssa.Alloc)
			if !ok {
				continue
			}
			if _, isArr := al.Type().Underlying().(*types.Pointer).Elem().Underlying().(*types.Array); isArr {
				continue
			}
			if addressStaysLocal(al, li.blocks) {
				out = append(out, al)
			}
		}
	}
	return out
}

// splitTopLevel splits a space-separated list of s-expressions.
func splitTopLevel(s string) []string {
	var out []string
	depth, start := 0, -1
	for i := 0; i < len(s); i++ {
		c := s[i]
		switch {
		case c == '(':
			if depth == 0 && start < 0 {
				start = i
			}
			depth++
		case c == ')':
			depth--
			if depth == 0 {
				out = append(out, s[start:i+1])
				start = -1
			}
		case c == ' ' || c == '\n' || c == '\t':
			if depth == 0 && start >= 0 {
				out = append(out, s[start:i])
				start = -1
			}
		default:
			if depth == 0 && start < 0 {
				start = i
			}
		}
	}
	if start >= 0 {
		out = append(out, s[start:])
	}
	return out
}

// privID names the private heaps of one of the activation's own variables:
// an Alloc (not an array) whose address is only used to load, store and
// address fields. "" = the variable lives in the shared heaps.
func privID(al *ssa.Alloc) string {
	if _, isArr := al.Type().Underlying().(*types.Pointer).Elem().Underlying().(*types.Array); isArr {
		return ""
	}
	if !addressStaysLocal(al, nil) {
		return ""
	}
	fn := al.Parent()
	return sanitizeSym(funcKey(fn)) + "." + al.Name()
}

func sanitizeSym(s string) string {
	return strings.NewReplacer("$", "S", "*", "p", "(", "", ")", "", " ", "", "<", "_", ">", "_", "&", "_", ",", "_").Replace(s)
}

// inPriv runs f with the private heaps of d's variable selected.
func (e *fnEnc) inPriv(d *addrDesc, f func()) {
	if d == nil || d.priv == "" || e.U.priv != "" {
		f()
		return
	}
	e.U.priv = d.priv
	defer func() { e.U.priv = "" }()
	f()
}
