package main

// Inlining of small uncontracted callees inside /repo (DESIGN §2.3): a call
// of a repo function that has no contract, no loop, no defer, no free
// variables, is not recursive and is small is encoded by encoding its body
// in place (its run-time checks become obligations of the caller, named
// inl.<callee>.<check>). Anything else keeps the modular treatment: result
// havocked, written heaps inferred from the code. This keeps "extract a
// helper" refactorings from turning proved posts into undecided ones.

import (
	"fmt"
	"go/token"
	"strings"

	"golang.org/x/tools/go/ssa"
)

type inlRet struct {
	reach string
	res   []Term
	heap  heapState
}

const (
	inlMaxDepth  = 2
	inlMaxInstrs = 250
	inlMaxBlocks = 48
)

func (e *fnEnc) canInline(callee *ssa.Function, key string) bool {
	return e.canInlineWith(callee, key, nil)
}

func (e *fnEnc) canInlineWith(callee *ssa.Function, key string, mc *ssa.MakeClosure) bool {
	if e.inlDepth >= inlMaxDepth || e.inRecover {
		return false
	}
	if mc != nil && callee != nil && len(callee.FreeVars) == len(mc.Bindings) {
		if !e.V.inlinableBody(callee, key) {
			return false
		}
	} else if !e.V.inlinableShape(callee, key) {
		return false
	}
	if e.V.reach(key, e.key) {
		return false // calls back into the function being encoded
	}
	return true
}

// inlinableShape: the structural part of the inlining test (independent of
// the call site). A function of this shape that is only ever called directly
// is verified in the context of each of its call sites, never on its own.
func (V *Verifier) inlinableShape(callee *ssa.Function, key string) bool {
	if callee == nil || len(callee.FreeVars) > 0 {
		return false
	}
	return V.inlinableBody(callee, key)
}

// inlinableBody is inlinableShape without the "no free variables" condition:
// a function literal called right where it was made can be inlined with its
// free variables bound to the closure's bindings.
func (V *Verifier) inlinableBody(callee *ssa.Function, key string) bool {
	if callee == nil || len(callee.Blocks) == 0 || len(callee.Blocks) > inlMaxBlocks || callee.Recover != nil {
		return false
	}
	if callee.Signature.Variadic() {
		return false
	}
	n := 0
	for _, b := range callee.Blocks {
		for _, s := range b.Succs {
			if s.Dominates(b) {
				return false // loop
			}
		}
		for _, in := range b.Instrs {
			n++
			switch in.(type) {
			case *ssa.Defer, *ssa.Go, *ssa.Select, *ssa.RunDefers, *ssa.Send, *ssa.MakeClosure:
				return false
			}
		}
	}
	if n > inlMaxInstrs {
		return false
	}
	if V.reach(key, key) {
		return false // recursive
	}
	return true
}

// inline encodes the callee's body at the current point. On any encoding
// problem inside the callee the state is rolled back and ok == false (the
// caller falls back to the modular treatment).
func (e *fnEnc) inline(callee *ssa.Function, key string, args []Term, pos token.Pos) (res []Term, ok bool) {
	return e.inlineWith(callee, key, args, pos, nil)
}

func (e *fnEnc) inlineWith(callee *ssa.Function, key string, args []Term, pos token.Pos, mc *ssa.MakeClosure) (res []Term, ok bool) {
	if len(args) != len(callee.Params) {
		return nil, false
	}
	if len(callee.FreeVars) > 0 {
		if mc == nil || len(mc.Bindings) != len(callee.FreeVars) {
			return nil, false
		}
		for i, fv := range callee.FreeVars {
			e.val[fv] = e.getN(mc.Bindings[i])
			if d := e.addr[mc.Bindings[i]]; d != nil {
				e.addr[fv] = d
			}
		}
	}
	// snapshot for roll-back
	nDecls, nAsserts, nObls, nNotes, nImp, nAllocs := len(e.decls), len(e.asserts), len(e.obls), len(e.notes), len(e.imprecise), len(e.allocs)
	savedHeap := e.curHeap.clone()
	savedReach := e.curReach
	savedFn, savedBlock, savedPrefix, savedRets, savedRet := e.fn, e.curBlock, e.inlPrefix, e.inlRets, e.retCount
	savedCounters := map[string]int{}
	for k, v := range e.counters {
		savedCounters[k] = v
	}
	restore := func() {
		e.fn, e.curBlock, e.inlPrefix, e.inlRets, e.retCount = savedFn, savedBlock, savedPrefix, savedRets, savedRet
		e.inlDepth--
	}
	rollback := func() {
		e.decls, e.asserts, e.obls, e.notes, e.imprecise, e.allocs = e.decls[:nDecls], e.asserts[:nAsserts], e.obls[:nObls], e.notes[:nNotes], e.imprecise[:nImp], e.allocs[:nAllocs]
		e.curHeap, e.curReach = savedHeap, savedReach
		e.counters = savedCounters
		for s := range e.heapDecl {
			_ = s
		}
	}
	declared := map[string]bool{}
	for k, v := range e.heapDecl {
		declared[k] = v
	}
	defer func() {
		if r := recover(); r != nil {
			if _, isEnc := r.(encErr); isEnc {
				restore()
				rollback()
				e.heapDecl = declared
				res, ok = nil, false
				return
			}
			panic(r)
		}
	}()
	if e.rootFn == nil {
		e.rootFn = e.fn
	}
	var rets []inlRet
	e.inlDepth++
	e.fn = callee
	e.inlPrefix = savedPrefix + "inl." + shortKey(key) + "."
	e.inlRets = &rets
	for i, p := range callee.Params {
		e.val[p] = []Term{args[i]}
	}
	entry := callee.Blocks[0]
	for _, b := range e.rpo() {
		e.curBlock = b
		if b == entry {
			r := e.fresh("reach.inl", "Bool")
			e.assert(fmt.Sprintf("(= %s %s)", r, savedReach))
			e.reachIn[b] = r
			// the heap continues from the call site
		} else {
			e.mergeInto(b, b.Preds)
		}
		e.curReach = e.reachIn[b]
		for _, in := range b.Instrs {
			e.instr(in)
		}
		e.reachOut[b] = e.curReach
		e.heapOut[b] = e.curHeap
		if len(b.Succs) == 2 {
			iff := b.Instrs[len(b.Instrs)-1].(*ssa.If)
			c := e.get(iff.Cond).S
			e.edgeCond[[2]*ssa.BasicBlock{b, b.Succs[0]}] = fmt.Sprintf("(and %s %s)", e.curReach, c)
			e.edgeCond[[2]*ssa.BasicBlock{b, b.Succs[1]}] = fmt.Sprintf("(and %s (not %s))", e.curReach, c)
		} else if len(b.Succs) == 1 {
			e.edgeCond[[2]*ssa.BasicBlock{b, b.Succs[0]}] = e.curReach
		}
	}
	restore()
	if len(e.imprecise) > nImp {
		// the body uses something outside the supported subset: keep the modular treatment
		rollback()
		e.heapDecl = declared
		return nil, false
	}
	// merge the returns
	U := e.U
	resT := callee.Signature.Results()
	for i := 0; i < resT.Len(); i++ {
		s := U.sortOf(resT.At(i).Type())
		t := Term{e.fresh("r.inl."+shortKey(key), s), s, resT.At(i).Type()}
		e.typeFacts(t, "")
		for _, r := range rets {
			if i < len(r.res) {
				e.assert(fmt.Sprintf("(=> %s (= %s %s))", r.reach, t.S, r.res[i].S))
			}
		}
		res = append(res, t)
	}
	var reaches []string
	keys := map[string]bool{}
	for _, r := range rets {
		reaches = append(reaches, r.reach)
		for k := range r.heap {
			keys[k] = true
		}
	}
	nr := e.fresh("reach", "Bool")
	switch len(reaches) {
	case 0:
		e.assert(fmt.Sprintf("(= %s false)", nr))
	case 1:
		e.assert(fmt.Sprintf("(= %s %s)", nr, reaches[0]))
	default:
		e.assert(fmt.Sprintf("(= %s (or %s))", nr, strings.Join(reaches, " ")))
	}
	e.curReach = nr
	e.curHeap = savedHeap.clone()
	for _, k := range sortedBoolKeys(keys) {
		h := U.heaps[k]
		if h == nil {
			h = U.heapByKey(k)
		}
		if h == nil {
			continue
		}
		same := true
		first := ""
		for i, r := range rets {
			s := e.heapTermIn(r.heap)(h)
			if i == 0 {
				first = s
			} else if s != first {
				same = false
			}
		}
		if same && len(rets) > 0 {
			e.curHeap[k] = first
			continue
		}
		nv := e.heapVersion(h)
		for _, r := range rets {
			e.assert(fmt.Sprintf("(=> %s (= %s %s))", r.reach, nv, e.heapTermIn(r.heap)(h)))
		}
		e.curHeap[k] = nv
	}
	e.note("call of uncontracted repo function " + key + " inlined")
	return res, true
}
