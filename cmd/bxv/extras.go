package main

import "fmt"

// runExtra dispatches the non-WP engines of a property.
func (V *Verifier) runExtra(spec *propSpec, name string, res *checkResult) {
	switch name {
	default:
		res.notes = append(res.notes, fmt.Sprintf("unknown extra engine %q", name))
	}
}
