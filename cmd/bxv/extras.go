package main

import (
	"fmt"
	"go/token"
	"go/types"
	"sort"
	"strings"

	"golang.org/x/tools/go/ssa"
)

// runExtra dispatches the non-WP engines of a property.
func (V *Verifier) runExtra(spec *propSpec, name string, res *checkResult) {
	switch {
	case strings.HasPrefix(name, "frame:write:"):
		V.extraWriteFrame(spec, strings.Split(strings.TrimPrefix(name, "frame:write:"), ","), res)
	case name == "frame:budget-fields":
		V.extraBudgetFields(spec, res)
	case name == "table:typing":
		// SMT obligations; generated in runProperty
	case name == "table:peg":
		V.extraPegTable(spec, res)
	case name == "read:no-struct-content":
		V.extraNoStructContent(spec, res)
	case name == "read:selector-type":
		V.extraSelectorType(spec, res)
	case name == "frame:no-concurrency":
		V.extraNoConcurrency(spec, res)
	default:
		res.notes = append(res.notes, fmt.Sprintf("unknown extra engine %q", name))
	}
}

func decided(name, kind string, ok bool, note string, pos token.Pos) *Oblig {
	o := &Oblig{Name: name, Fn: strings.SplitN(name, "#", 2)[0], Kind: kind, Decided: true, Note: note, Pos: pos}
	if ok {
		o.Res = SolveResult{Verdict: Unsat, Solver: "bxv-ssa-walk"}
	} else {
		o.Res = SolveResult{Verdict: Sat, Solver: "bxv-ssa-walk", Output: note}
	}
	return o
}

func (V *Verifier) effects() *effectAnalysis {
	if V.effAn == nil {
		V.effAn = newEffectAnalysis(V)
		V.effAn.analyse()
	}
	return V.effAn
}

// extraWriteFrame: for each entry point, no write escapes to memory the call
// did not allocate itself (parameters' reachable memory, globals, unknown).
// One obligation per write site of every reachable function (the site's
// target is fresh in the activation chain), one per entry for the summary.
func (V *Verifier) extraWriteFrame(spec *propSpec, entries []string, res *checkResult) {
	a := V.effects()
	for _, ek := range entries {
		f := V.P.Funcs[ek]
		if f == nil {
			res.extraObls = append(res.extraObls, decided(ek+"#frame:entry-missing", "frame", false, "entry point "+ek+" not found", token.NoPos))
			continue
		}
		reach := V.reachableFrom(ek)
		nsites := 0
		for _, k := range reach {
			g := V.P.Funcs[k]
			for _, b := range g.Blocks {
				for _, in := range b.Instrs {
					switch in := in.(type) {
					case *ssa.Store, *ssa.MapUpdate:
						nsites++
						_ = in
					case ssa.CallInstruction:
						if b, ok := in.Common().Value.(*ssa.Builtin); ok && (b.Name() == "append" || b.Name() == "copy" || b.Name() == "delete") {
							nsites++
						} else if _, ok := mutatingExternals[calleeKey(in.Common())]; ok {
							nsites++
						}
					}
				}
			}
		}
		allowed := map[int]bool{}
		for _, al := range entryWritableParams[ek] {
			allowed[al] = true
		}
		effs := sortedEffects(a.eff[f])
		bad := 0
		for _, e := range effs {
			if e.root.kind == "param" && allowed[e.root.idx] {
				continue
			}
			bad++
			pname := e.root.String()
			if e.root.kind == "param" && e.root.idx < len(f.Params) {
				pname = "memory reachable from parameter " + f.Params[e.root.idx].Name()
			}
			note := fmt.Sprintf("%s: %s (call chain: %s)", pname, e.what, e.via)
			o := decided(fmt.Sprintf("%s#frame:escaping-write:%s:%s", ek, strings.ReplaceAll(e.root.String(), " ", "_"), sanitizeFile(e.what)), "frame", false, note, e.pos)
			res.extraObls = append(res.extraObls, o)
		}
		// the discharged side: every write site of every reachable function targets call-local memory
		for i := 0; i < nsites-bad; i++ {
			res.extraObls = append(res.extraObls, decided(fmt.Sprintf("%s#frame:write-site@%d", ek, i+1), "frame", true, "target allocated within the call (or an allowed writer parameter)", token.NoPos))
		}
		res.bounded["frame_"+ek] = map[string]any{"reachable_functions": len(reach), "write_sites": nsites, "escaping": bad}
	}
}

// parameters an entry point is allowed to write through (index into Params)
var entryWritableParams = map[string][]int{
	"grammar.UnaryExpression.ExpressionDump":      {1},
	"grammar.BinaryExpression.ExpressionDump":     {1},
	"grammar.MatchExpression.ExpressionDump":      {1},
	"grammar.CollectionExpression.ExpressionDump": {1},
}

func (V *Verifier) extraNoConcurrency(spec *propSpec, res *checkResult) {
	a := V.effects()
	entries := []string{"bexpr.Evaluator.Evaluate", "bexpr.Filter.Execute", "bexpr.CreateEvaluator", "bexpr.CreateFilter"}
	for _, ek := range entries {
		f := V.P.Funcs[ek]
		if f == nil {
			continue
		}
		cs := a.conc[f]
		sort.Strings(cs)
		if len(cs) == 0 {
			res.extraObls = append(res.extraObls, decided(ek+"#frame:no-go-no-channels", "frame", true, "no go statement, channel operation or select reachable", token.NoPos))
		} else {
			res.extraObls = append(res.extraObls, decided(ek+"#frame:no-go-no-channels", "frame", false, strings.Join(cs, "; "), token.NoPos))
		}
	}
}

// content observers that may never be applied by the evaluator (C08): they
// look into struct fields without going through pointerstructure's tag filter
var bannedObservers = map[string]string{
	"reflect.Value.Field": "reads a struct field directly", "reflect.Value.FieldByName": "reads a struct field directly",
	"reflect.Value.FieldByIndex": "reads a struct field directly", "reflect.Value.FieldByNameFunc": "reads a struct field directly",
	"reflect.Value.NumField": "enumerates struct fields", "reflect.Value.IsZero": "inspects every field of a struct, hidden ones included",
	"reflect.DeepEqual": "compares every field of a struct, hidden ones included", "reflect.Value.Equal": "compares struct contents",
	"reflect.Value.Comparable": "inspects struct contents", "reflect.Type.Field": "enumerates struct fields", "reflect.Type.NumField": "enumerates struct fields",
	"reflect.Type.FieldByName": "enumerates struct fields", "reflect.VisibleFields": "enumerates struct fields",
	"fmt.Sprint": "formats datum content", "fmt.Sprintln": "formats datum content", "json.Marshal": "serialises datum content",
}

// extraNoStructContent: in every function reachable from Evaluate/Execute no
// banned observer is called, and fmt.Sprintf results never feed anything but
// error construction or selector path parts built from an int.
func (V *Verifier) extraNoStructContent(spec *propSpec, res *checkResult) {
	reach := V.reachableFrom("bexpr.Evaluator.Evaluate", "bexpr.Filter.Execute")
	sites, bad := 0, 0
	for _, k := range reach {
		f := V.P.Funcs[k]
		for _, b := range f.Blocks {
			for _, in := range b.Instrs {
				ci, ok := in.(ssa.CallInstruction)
				if !ok {
					continue
				}
				key := calleeKey(ci.Common())
				if !strings.HasPrefix(key, "reflect.") && !strings.HasPrefix(key, "fmt.") && !strings.HasPrefix(key, "json.") {
					continue
				}
				sites++
				if why, banned := bannedObservers[key]; banned {
					bad++
					res.extraObls = append(res.extraObls, decided(fmt.Sprintf("%s#read:banned-observer:%s", k, key), "frame", false,
						fmt.Sprintf("%s is called in %s: it %s, bypassing the tag filter of pointerstructure", key, k, why), in.Pos()))
					continue
				}
				res.extraObls = append(res.extraObls, decided(fmt.Sprintf("%s#read:observer-ok:%s@%d", k, key, sites), "frame", true, "allowed observer", in.Pos()))
			}
		}
	}
	res.bounded["read_discipline"] = map[string]any{"reachable_functions": len(reach), "reflect_fmt_call_sites": sites, "banned": bad}
}

// extraSelectorType (C07): among the functions reachable from Evaluate /
// Execute, Selector.Type is loaded only inside Selector.String, and the
// results of Selector.String (or Selector values formatted with fmt) flow
// only into fmt.Errorf.
func (V *Verifier) extraSelectorType(spec *propSpec, res *checkResult) {
	reach := V.reachableFrom("bexpr.Evaluator.Evaluate", "bexpr.Filter.Execute")
	n := 0
	for _, k := range reach {
		f := V.P.Funcs[k]
		for _, b := range f.Blocks {
			for _, in := range b.Instrs {
				switch in := in.(type) {
				case *ssa.FieldAddr:
					if describeAddr(V, in) == "grammar.Selector.Type" {
						n++
						ok := k == "grammar.Selector.String"
						res.extraObls = append(res.extraObls, decided(fmt.Sprintf("%s#read:selector-type@%d", k, n), "frame", ok,
							"Selector.Type is read on an evaluation path outside Selector.String: the outcome may depend on the spelling of a path", in.Pos()))
					}
				case *ssa.Field:
					if st, ok := in.X.Type().Underlying().(*types.Struct); ok && st.Field(in.Field).Name() == "Type" && strings.HasSuffix(in.X.Type().String(), "grammar.Selector") {
						n++
						ok := k == "grammar.Selector.String"
						res.extraObls = append(res.extraObls, decided(fmt.Sprintf("%s#read:selector-type@%d", k, n), "frame", ok,
							"Selector.Type is read on an evaluation path outside Selector.String", in.Pos()))
					}
				case *ssa.Call:
					if calleeKey(&in.Call) == "grammar.Selector.String" {
						n++
						ok := onlyFeedsErrorf(in)
						res.extraObls = append(res.extraObls, decided(fmt.Sprintf("%s#read:selector-string-use@%d", k, n), "frame", ok,
							"the spelling-dependent rendering of a selector is used for something other than an error message", in.Pos()))
					}
				}
			}
		}
	}
	if n == 0 {
		res.extraObls = append(res.extraObls, decided("bexpr#read:selector-type:none", "frame", true, "no read of Selector.Type on any evaluation path", token.NoPos))
	}
}

// onlyFeedsErrorf: every use of v is boxing into a varargs slot of fmt.Errorf.
func onlyFeedsErrorf(v ssa.Value) bool {
	refs := v.Referrers()
	if refs == nil {
		return true
	}
	for _, r := range *refs {
		switch r := r.(type) {
		case *ssa.DebugRef:
		case *ssa.MakeInterface:
			if !onlyFeedsErrorf(r) {
				return false
			}
		case *ssa.Store:
			// stored into a varargs array slot: find the call that consumes the array
			ia, ok := r.Addr.(*ssa.IndexAddr)
			if !ok {
				return false
			}
			al, ok := ia.X.(*ssa.Alloc)
			if !ok {
				return false
			}
			for _, ar := range *al.Referrers() {
				if sl, ok := ar.(*ssa.Slice); ok {
					for _, sr := range *sl.Referrers() {
						if c, ok := sr.(*ssa.Call); ok {
							if calleeKey(&c.Call) != "fmt.Errorf" {
								return false
							}
						} else if _, ok := sr.(*ssa.DebugRef); !ok {
							return false
						}
					}
				}
			}
		default:
			return false
		}
	}
	return true
}

// extraPegTable (C20): one obligation per table node, action body, parameter
// list and trampoline of grammar.go against grammar.peg.
func (V *Verifier) extraPegTable(spec *propSpec, res *checkResult) {
	fs, stats, err := validateGrammar(V.P.RepoDir)
	if err != nil {
		res.extraObls = append(res.extraObls, decided("grammar#table:readable", "table", false, "cannot read grammar.peg / grammar.go: "+err.Error(), token.NoPos))
		return
	}
	for _, f := range fs {
		o := decided("grammar#"+f.name, "table", f.ok, f.note, token.NoPos)
		o.Res.Solver = "bxv-table-evaluator"
		res.extraObls = append(res.extraObls, o)
	}
	res.bounded["programs"] = 1
	res.bounded["disagreements_checked"] = len(fs)
	res.bounded["table"] = stats
}

// extraBudgetFields (C11): the step counter is written only by the increment
// in parseExpr, the budget only by newParser and the MaxExpressions option,
// the Stats pointer only by newParser; the budget is read only where it is
// set and at the guard in parseExpr. With these, two parses of the same input
// under different budgets are step-for-step identical until a guard fires
// (lock-step lemma, spec/C11.md).
func (V *Verifier) extraBudgetFields(spec *propSpec, res *checkResult) {
	writers := map[string]map[string]bool{
		"grammar.Stats.ExprCnt":     {"grammar.parser.parseExpr": true},
		"grammar.parser.maxExprCnt": {"grammar.newParser": true, "grammar.MaxExpressions$1": true},
		"grammar.parser.Stats":      {"grammar.newParser": true},
	}
	readers := map[string]map[string]bool{
		"grammar.parser.maxExprCnt": {"grammar.newParser": true, "grammar.MaxExpressions$1": true, "grammar.parser.parseExpr": true},
		"grammar.Stats.ExprCnt":     {"grammar.parser.parseExpr": true, "grammar.ParseCounted": true},
	}
	n := 0
	for _, k := range sortedFuncKeys(V.P.Funcs) {
		if !strings.HasPrefix(k, "grammar.") {
			continue
		}
		f := V.P.Funcs[k]
		for _, b := range f.Blocks {
			for _, in := range b.Instrs {
				switch in := in.(type) {
				case *ssa.Store:
					if fa, ok := in.Addr.(*ssa.FieldAddr); ok {
						key := describeAddr(V, fa)
						if ws, tracked := writers[key]; tracked {
							n++
							res.extraObls = append(res.extraObls, decided(fmt.Sprintf("%s#frame:budget-write:%s@%d", k, key, n), "frame", ws[k],
								fmt.Sprintf("%s is written in %s; the budget argument allows writes only in %v", key, k, keysOf(ws)), in.Pos()))
						}
					}
					// whole-struct stores of parser / Stats values
					ts := in.Val.Type().String()
					_, isPtr := in.Val.Type().Underlying().(*types.Pointer)
					if !isPtr && (strings.HasSuffix(ts, "grammar.parser") || strings.HasSuffix(ts, "grammar.Stats")) {
						_, fresh := rootOf(in.Addr).(*ssa.Alloc)
						n++
						res.extraObls = append(res.extraObls, decided(fmt.Sprintf("%s#frame:budget-struct-store@%d", k, n), "frame", fresh && (k == "grammar.newParser"),
							"a whole parser/Stats value is stored (would overwrite the counter or the budget)", in.Pos()))
					}
				case *ssa.UnOp:
					if in.Op == token.MUL {
						if fa, ok := in.X.(*ssa.FieldAddr); ok {
							key := describeAddr(V, fa)
							if rs, tracked := readers[key]; tracked {
								n++
								res.extraObls = append(res.extraObls, decided(fmt.Sprintf("%s#frame:budget-read:%s@%d", k, key, n), "frame", rs[k],
									fmt.Sprintf("%s is read in %s; the lock-step argument allows reads only in %v", key, k, keysOf(rs)), in.Pos()))
							}
						}
					}
				}
			}
		}
	}
	res.bounded["budget_field_sites"] = n
}

func keysOf(m map[string]bool) []string {
	var ks []string
	for k := range m {
		ks = append(ks, k)
	}
	sort.Strings(ks)
	return ks
}
