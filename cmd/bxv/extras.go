package main

import (
	"fmt"
	"go/token"
	"sort"
	"strings"

	"golang.org/x/tools/go/ssa"
)

// runExtra dispatches the non-WP engines of a property.
func (V *Verifier) runExtra(spec *propSpec, name string, res *checkResult) {
	switch {
	case strings.HasPrefix(name, "frame:write:"):
		V.extraWriteFrame(spec, strings.Split(strings.TrimPrefix(name, "frame:write:"), ","), res)
	case name == "frame:no-concurrency":
		V.extraNoConcurrency(spec, res)
	default:
		res.notes = append(res.notes, fmt.Sprintf("unknown extra engine %q", name))
	}
}

func decided(name, kind string, ok bool, note string, pos token.Pos) *Oblig {
	o := &Oblig{Name: name, Fn: strings.SplitN(name, "#", 2)[0], Kind: kind, Decided: true, Note: note, Pos: pos}
	if ok {
		o.Res = SolveResult{Verdict: Unsat, Solver: "bxv-ssa-walk"}
	} else {
		o.Res = SolveResult{Verdict: Sat, Solver: "bxv-ssa-walk", Output: note}
	}
	return o
}

func (V *Verifier) effects() *effectAnalysis {
	if V.effAn == nil {
		V.effAn = newEffectAnalysis(V)
		V.effAn.analyse()
	}
	return V.effAn
}

// extraWriteFrame: for each entry point, no write escapes to memory the call
// did not allocate itself (parameters' reachable memory, globals, unknown).
// One obligation per write site of every reachable function (the site's
// target is fresh in the activation chain), one per entry for the summary.
func (V *Verifier) extraWriteFrame(spec *propSpec, entries []string, res *checkResult) {
	a := V.effects()
	for _, ek := range entries {
		f := V.P.Funcs[ek]
		if f == nil {
			res.extraObls = append(res.extraObls, decided(ek+"#frame:entry-missing", "frame", false, "entry point "+ek+" not found", token.NoPos))
			continue
		}
		reach := V.reachableFrom(ek)
		nsites := 0
		for _, k := range reach {
			g := V.P.Funcs[k]
			for _, b := range g.Blocks {
				for _, in := range b.Instrs {
					switch in := in.(type) {
					case *ssa.Store, *ssa.MapUpdate:
						nsites++
						_ = in
					case ssa.CallInstruction:
						if b, ok := in.Common().Value.(*ssa.Builtin); ok && (b.Name() == "append" || b.Name() == "copy" || b.Name() == "delete") {
							nsites++
						} else if _, ok := mutatingExternals[calleeKey(in.Common())]; ok {
							nsites++
						}
					}
				}
			}
		}
		allowed := map[int]bool{}
		for _, al := range entryWritableParams[ek] {
			allowed[al] = true
		}
		effs := sortedEffects(a.eff[f])
		bad := 0
		for _, e := range effs {
			if e.root.kind == "param" && allowed[e.root.idx] {
				continue
			}
			bad++
			pname := e.root.String()
			if e.root.kind == "param" && e.root.idx < len(f.Params) {
				pname = "memory reachable from parameter " + f.Params[e.root.idx].Name()
			}
			note := fmt.Sprintf("%s: %s (call chain: %s)", pname, e.what, e.via)
			o := decided(fmt.Sprintf("%s#frame:escaping-write:%s:%s", ek, strings.ReplaceAll(e.root.String(), " ", "_"), sanitizeFile(e.what)), "frame", false, note, e.pos)
			res.extraObls = append(res.extraObls, o)
		}
		// the discharged side: every write site of every reachable function targets call-local memory
		for i := 0; i < nsites-bad; i++ {
			res.extraObls = append(res.extraObls, decided(fmt.Sprintf("%s#frame:write-site@%d", ek, i+1), "frame", true, "target allocated within the call (or an allowed writer parameter)", token.NoPos))
		}
		res.bounded["frame_"+ek] = map[string]any{"reachable_functions": len(reach), "write_sites": nsites, "escaping": bad}
	}
}

// parameters an entry point is allowed to write through (index into Params)
var entryWritableParams = map[string][]int{
	"grammar.UnaryExpression.ExpressionDump":      {1},
	"grammar.BinaryExpression.ExpressionDump":     {1},
	"grammar.MatchExpression.ExpressionDump":      {1},
	"grammar.CollectionExpression.ExpressionDump": {1},
}

func (V *Verifier) extraNoConcurrency(spec *propSpec, res *checkResult) {
	a := V.effects()
	entries := []string{"bexpr.Evaluator.Evaluate", "bexpr.Filter.Execute", "bexpr.CreateEvaluator", "bexpr.CreateFilter"}
	for _, ek := range entries {
		f := V.P.Funcs[ek]
		if f == nil {
			continue
		}
		cs := a.conc[f]
		sort.Strings(cs)
		if len(cs) == 0 {
			res.extraObls = append(res.extraObls, decided(ek+"#frame:no-go-no-channels", "frame", true, "no go statement, channel operation or select reachable", token.NoPos))
		} else {
			res.extraObls = append(res.extraObls, decided(ek+"#frame:no-go-no-channels", "frame", false, strings.Join(cs, "; "), token.NoPos))
		}
	}
}
