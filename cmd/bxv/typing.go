package main

// Grammar typing (extra engine "table:typing", C10): rule contracts on the
// real rule table `var g` of /repo/grammar/grammar.go.
//
//	//@ rule OrExpression(v)
//	//@   yields is[Expression](v) && wfS(v)
//
// says: every value a successful match of rule OrExpression hands to its
// caller satisfies the predicate. The engine derives, from the table read
// from grammar.go on every run and from the (WP-verified) contracts of the
// action functions, one SMT obligation per place where that could fail:
//
//   typing:<Rule>:<onX>:pre:<clause>   at every action site, the label values
//       (typed by the rule contracts of what they are bound to, per PEG value
//       semantics) satisfy the action's requires - i.e. its type assertions
//       cannot fail;
//   typing:<Rule>:<onX>:yields         the action's ensures (with err == nil)
//       establish the rule's yields predicate for the returned value;
//   typing:<Rule>:<n>:yields           same for alternatives without action;
//   typing:entry                       the entry rule's predicate implies what
//       grammar.Parse's (trusted) contract promises about an accepted input.
//
// known() below is the clause-by-clause image of the spec function `yields`
// (spec/27-peg.smt2) on the table as read from grammar.go; the engine methods
// of grammar.go are verified by WP against `yields` (sequence -> []any of the
// values of its parts in order, * and + -> []any of values of the
// sub-expression, ? -> value or nil, label and rule reference -> the
// sub-value, choice -> the value of one alternative, predicates -> nil,
// matchers -> []byte, a failed match -> nil). What stays assumed (A-ENGINE,
// narrowed): a label's value reaches the action parameter of that name (the
// vstack maps and the generated trampolines), p.rules maps a rule name to that
// rule, c.text is the matched input, a nil error from Parse means no action
// returned an error, and nodes are never written after the action that
// allocated them returned (every action is `assigns nothing`, frame-checked) -
// so a predicate established when a value was produced still holds at the
// end. A-ACYCLIC: wfS (shape) of a tree built bottom-up from fresh nodes
// extends to wf (shape + a size measure).

import (
	"fmt"
	"go/ast"
	"go/parser"
	"go/token"
	"go/types"
	"path/filepath"
	"sort"
	"strings"
)

type RuleContract struct {
	Name   string
	Var    string
	LenVar string // optional second variable: the number of input bytes the match consumed
	Yields []*Clause
	File   string
	Line   int
}

// ---- CExpr construction --------------------------------------------------------

func cxID(n string) *CExpr              { return &CExpr{Op: "id", Name: n} }
func cxNum(n int) *CExpr                { return &CExpr{Op: "num", Name: fmt.Sprint(n)} }
func cxBin(op string, a, b *CExpr) *CExpr { return &CExpr{Op: "binop", Name: op, Args: []*CExpr{a, b}} }
func cxCall(n string, a ...*CExpr) *CExpr { return &CExpr{Op: "call", Name: n, Args: a} }
func cxTy(n, ty string, a ...*CExpr) *CExpr {
	return &CExpr{Op: "tyarg", Name: n, Ty: ty, Args: a}
}
func cxIndex(a, i *CExpr) *CExpr { return &CExpr{Op: "index", Args: []*CExpr{a, i}} }
func cxTrue() *CExpr             { return cxID("true") }
func cxIsTrue(e *CExpr) bool     { return e.Op == "id" && e.Name == "true" }
func cxIsFalse(e *CExpr) bool    { return e.Op == "id" && e.Name == "false" }
func cxAnd(a, b *CExpr) *CExpr {
	if cxIsTrue(a) {
		return b
	}
	if cxIsTrue(b) {
		return a
	}
	return cxBin("&&", a, b)
}
func cxOr(a, b *CExpr) *CExpr {
	if cxIsTrue(a) || cxIsTrue(b) {
		return cxTrue()
	}
	if cxIsFalse(a) {
		return b
	}
	if cxIsFalse(b) {
		return a
	}
	return cxBin("||", a, b)
}

func cxSubst(e *CExpr, name string, repl *CExpr) *CExpr {
	if e == nil {
		return nil
	}
	if e.Op == "id" && e.Name == name {
		return repl
	}
	for _, bv := range e.BVars {
		if bv[0] == name {
			return e
		}
	}
	n := *e
	n.Args = make([]*CExpr, len(e.Args))
	for i, a := range e.Args {
		n.Args[i] = cxSubst(a, name, repl)
	}
	return &n
}

// ---- the table ----------------------------------------------------------------

func loadRuleTable(repo string) ([]*pnode, error) {
	fset := token.NewFileSet()
	gf, err := parser.ParseFile(fset, filepath.Join(repo, "grammar", "grammar.go"), nil, 0)
	if err != nil {
		return nil, err
	}
	var rules []*pnode
	for _, d := range gf.Decls {
		gd, ok := d.(*ast.GenDecl)
		if !ok {
			continue
		}
		for _, sp := range gd.Specs {
			vs, ok := sp.(*ast.ValueSpec)
			if !ok || len(vs.Names) != 1 || vs.Names[0].Name != "g" || len(vs.Values) != 1 {
				continue
			}
			u, ok := vs.Values[0].(*ast.UnaryExpr)
			if !ok {
				continue
			}
			cl, ok := u.X.(*ast.CompositeLit)
			if !ok {
				continue
			}
			for _, el := range cl.Elts {
				kv, ok := el.(*ast.KeyValueExpr)
				if !ok {
					continue
				}
				if id, ok := kv.Key.(*ast.Ident); ok && id.Name == "rules" {
					if l, ok := kv.Value.(*ast.CompositeLit); ok {
						for _, r := range l.Elts {
							rules = append(rules, tableNode(r, "rule"))
						}
					}
				}
			}
		}
	}
	if len(rules) == 0 {
		return nil, fmt.Errorf("no rule table `var g` found in grammar.go")
	}
	return rules, nil
}

type typing struct {
	V      *Verifier
	rules  map[string]*pnode
	order  []string
	minLen map[string]int
	qn     int
	out    []*Oblig // SMT obligations
	dec    []*Oblig // decided by inspection of the table
	sites  int
}

const tyInf = 1 << 20

func (ty *typing) minLenOf(n *pnode) int {
	switch n.Kind {
	case "rule", "labeledExpr", "actionExpr", "oneOrMoreExpr":
		if len(n.Kids) == 0 {
			return 0
		}
		return ty.minLenOf(n.Kids[0])
	case "seqExpr":
		s := 0
		for _, k := range n.Kids {
			s += ty.minLenOf(k)
			if s > tyInf {
				s = tyInf
			}
		}
		return s
	case "choiceExpr":
		m := tyInf
		for _, k := range n.Kids {
			if l := ty.minLenOf(k); l < m {
				m = l
			}
		}
		return m
	case "ruleRefExpr":
		if v, ok := ty.minLen[n.Attr["name"]]; ok {
			return v
		}
		return 0
	case "litMatcher":
		return len(n.Attr["val"]) // bytes; a lower bound also under ignoreCase for ASCII literals
	case "charClassMatcher", "anyMatcher":
		return 1
	}
	return 0 // ? * & ! code predicates, throw, recovery, unknown
}

func (ty *typing) computeMinLens() {
	// least fixpoint from below is wrong for recursion (0 is always sound); iterate upward from 0
	for _, n := range ty.order {
		ty.minLen[n] = 0
	}
	for it := 0; it < 50; it++ {
		ch := false
		for _, n := range ty.order {
			l := ty.minLenOf(ty.rules[n])
			if l > tyInf {
				l = tyInf
			}
			if l != ty.minLen[n] {
				ty.minLen[n] = l
				ch = true
			}
		}
		if !ch {
			break
		}
	}
}

func cxMentions(e *CExpr, name string) bool {
	if e == nil {
		return false
	}
	if e.Op == "id" && e.Name == name {
		return true
	}
	for _, a := range e.Args {
		if cxMentions(a, name) {
			return true
		}
	}
	return false
}

// ruleYields instantiates the rule's predicate for value x and matched
// length n; with n == nil the clauses that mention the length are left out
// (a weaker hypothesis - never used for a goal).
func (ty *typing) ruleYields(name string, x, n *CExpr) *CExpr {
	rc := ty.V.CS.Rules[name]
	if rc == nil {
		return cxTrue()
	}
	out := cxTrue()
	for _, c := range rc.Yields {
		e := c.Expr
		if rc.LenVar != "" && cxMentions(e, rc.LenVar) {
			if n == nil {
				continue
			}
			e = cxSubst(e, rc.LenVar, n)
		}
		out = cxAnd(out, cxSubst(e, rc.Var, x))
	}
	return out
}

// known returns what is known (H) about a value x produced by a successful
// match of n, per PEG value semantics.
func (ty *typing) known(n *pnode, x, ln *CExpr) *CExpr {
	isSl := func() *CExpr { return cxTy("is", "[]any", x) }
	elems := func() *CExpr { return cxTy("unbox", "[]any", x) }
	switch n.Kind {
	case "ruleRefExpr":
		return ty.ruleYields(n.Attr["name"], x, ln)
	case "labeledExpr":
		return ty.known(n.Kids[0], x, ln)
	case "zeroOrOneExpr":
		return cxOr(cxBin("==", x, cxID("nil")), ty.known(n.Kids[0], x, nil))
	case "zeroOrMoreExpr", "oneOrMoreExpr":
		ty.qn++
		iv := fmt.Sprintf("ti%d", ty.qn)
		el := ty.known(n.Kids[0], cxIndex(elems(), cxID(iv)), nil)
		res := isSl()
		if n.Kind == "oneOrMoreExpr" {
			res = cxAnd(res, cxBin(">=", cxCall("len", elems()), cxNum(1)))
		}
		if !cxIsTrue(el) {
			rng := cxBin("&&", cxBin("<=", cxNum(0), cxID(iv)), cxBin("<", cxID(iv), cxCall("len", elems())))
			res = cxAnd(res, &CExpr{Op: "forall", BVars: [][2]string{{iv, "Int"}}, Args: []*CExpr{cxBin("==>", rng, el)}})
		}
		return res
	case "seqExpr":
		return cxAnd(isSl(), cxBin("==", cxCall("len", elems()), cxNum(len(n.Kids))))
	case "choiceExpr":
		out := cxID("false")
		for _, k := range n.Kids {
			out = cxOr(out, ty.known(k, x, ln))
		}
		return out
	case "litMatcher", "charClassMatcher", "anyMatcher":
		return cxTy("is", "[]byte", x)
	case "andExpr", "notExpr", "andCodeExpr", "notCodeExpr":
		return cxBin("==", x, cxID("nil"))
	}
	return cxTrue() // actionExpr nested in a sequence, throw, recovery: nothing known
}

type tyLabel struct {
	name string
	expr *pnode
	weak bool // under ? * + or a choice: may be unset (nil) when the action runs
}

func collectLabels(n *pnode, weak bool, out *[]tyLabel, codes *[]*pnode) {
	switch n.Kind {
	case "labeledExpr":
		*out = append(*out, tyLabel{n.Attr["label"], n.Kids[0], weak})
		collectLabels(n.Kids[0], weak, out, codes)
	case "actionExpr":
		// a nested action has its own frame
	case "andCodeExpr", "notCodeExpr":
		if !weak {
			*codes = append(*codes, n)
		}
	case "seqExpr":
		for _, k := range n.Kids {
			collectLabels(k, weak, out, codes)
		}
	case "zeroOrOneExpr", "zeroOrMoreExpr", "oneOrMoreExpr", "choiceExpr":
		for _, k := range n.Kids {
			collectLabels(k, true, out, codes)
		}
	case "andExpr", "notExpr":
		// labels inside a predicate are popped with its frame; code inside may or may not run
	}
}

// ---- obligations ----------------------------------------------------------------

type tyGoal struct {
	dead  bool // contains a code predicate that must have succeeded: the alternative may be (is meant to be) unreachable
	env   *cenv
	decls []string
	facts []string
	hyps  []string
}

func (ty *typing) newGoal() *tyGoal {
	V := ty.V
	g := &tyGoal{}
	env := &cenv{U: V.U, vars: map[string]Term{}, pkg: V.P.Grammar.Pkg, heap: heapState{}, old: heapState{}}
	heapDecl := map[string]bool{}
	env.heapSym = func(key string) string {
		h := V.U.heaps[key]
		if h == nil {
			h = V.U.heapByKey(key)
		}
		sym := h.Sym + "@lemma"
		if !heapDecl[sym] {
			heapDecl[sym] = true
			g.decls = append(g.decls, fmt.Sprintf("(declare-const %s (Array Int %s))", sym, h.Elem))
		}
		return sym
	}
	g.env = env
	return g
}

func (g *tyGoal) declare(U *Universe, name string, T types.Type, sortOverride string) Term {
	s := sortOverride
	if s == "" {
		s = U.sortOf(T)
	}
	sym := "ty." + name
	g.decls = append(g.decls, fmt.Sprintf("(declare-const %s %s)", sym, s))
	t := Term{S: sym, Sort: s, T: T}
	g.env.vars[name] = t
	g.facts = append(g.facts, U.typeFactsOf(t, 1)...)
	return t
}

func (ty *typing) emit(g *tyGoal, name string, concl *CExpr, clause *Clause, note string) {
	V := ty.V
	var side []string
	V.U.emit = func(s string) { side = append(side, s) }
	t, err := g.env.tr(concl, "Bool")
	V.U.emit = nil
	if err != nil {
		V.encErrs[name] = fmt.Errorf("%s: %v", name, err)
		return
	}
	var body strings.Builder
	for _, f := range g.facts {
		fmt.Fprintf(&body, "(assert %s)\n", f)
	}
	for _, f := range side {
		fmt.Fprintf(&body, "(assert %s)\n", f)
	}
	for _, h := range g.hyps {
		fmt.Fprintf(&body, "(assert %s)\n", h)
	}
	hypsOnly := body.String()
	fmt.Fprintf(&body, "(assert (not %s))\n", t.S)
	o := &Oblig{Name: name, Fn: "grammar.g", Kind: "typing", Props: []string{"C10"}, Goal: t.S, Guard: "true", Clause: clause, Note: note}
	o.lemmaDecls = append([]string(nil), g.decls...)
	o.lemmaBody = body.String()
	o.lemmaFuel = 1
	ty.out = append(ty.out, o)
	if !g.dead {
		// vacuity canary: the hypotheses this goal was proved under are satisfiable
		c := &Oblig{Name: name + ":hyps-satisfiable", Fn: "grammar.g", Kind: "vacuity", Goal: "false", Guard: "true", ExpectSat: true}
		c.lemmaDecls = o.lemmaDecls
		c.lemmaBody = hypsOnly + "(assert true)\n"
		c.lemmaFuel = 1
		ty.out = append(ty.out, c)
	}
}

func (g *tyGoal) assume(V *Verifier, e *CExpr) error {
	var side []string
	V.U.emit = func(s string) { side = append(side, s) }
	t, err := g.env.tr(e, "Bool")
	V.U.emit = nil
	if err != nil {
		return err
	}
	g.facts = append(g.facts, side...)
	g.hyps = append(g.hyps, t.S)
	return nil
}

func actionName(run string) string { return "on" + strings.TrimPrefix(run, "callon") }

// codeHyps adds, for every code predicate that must have succeeded for the
// sequence to match, the predicate's contract and its outcome.
func (ty *typing) codeHyps(g *tyGoal, codes []*pnode, where string) bool {
	V := ty.V
	for i, cn := range codes {
		g.dead = true
		on := actionName(cn.Attr["run"])
		con := V.CS.ByKey["grammar.current."+on]
		fn := V.P.Funcs["grammar.current."+on]
		if con == nil || fn == nil {
			continue // nothing known about the predicate
		}
		sig := fn.Signature
		if sig.Results().Len() != 2 || len(con.Results) != 2 {
			continue
		}
		okName := fmt.Sprintf("%s.ok%d", on, i)
		errName := fmt.Sprintf("%s.err%d", on, i)
		okT := g.declare(V.U, okName, sig.Results().At(0).Type(), "")
		errT := g.declare(V.U, errName, sig.Results().At(1).Type(), "")
		sub := g.env.sub(map[string]Term{con.Results[0]: okT, con.Results[1]: errT})
		for k, v := range g.env.vars {
			if _, dup := sub.vars[k]; !dup {
				sub.vars[k] = v
			}
		}
		for _, c := range con.Ensures {
			var side []string
			V.U.emit = func(s string) { side = append(side, s) }
			t, err := sub.tr(c.Expr, "Bool")
			V.U.emit = nil
			if err != nil {
				continue // mentions parameters that are not in this frame; skip
			}
			g.facts = append(g.facts, side...)
			g.hyps = append(g.hyps, t.S)
		}
		if cn.Kind == "andCodeExpr" {
			g.hyps = append(g.hyps, okT.S)
		} else {
			g.hyps = append(g.hyps, "(not "+okT.S+")")
		}
	}
	return true
}

func (ty *typing) establish(rule string, n *pnode, path string) {
	V := ty.V
	switch n.Kind {
	case "choiceExpr":
		for i, k := range n.Kids {
			ty.establish(rule, k, fmt.Sprintf("%s%d", path, i+1))
		}
		return
	case "actionExpr":
		ty.actionSite(rule, n)
		return
	}
	want := ty.ruleYields(rule, cxID("v"), cxID("n"))
	if cxIsTrue(want) {
		// nothing promised; but nested actions inside still need their requires
		ty.nestedActions(rule, n)
		return
	}
	g := ty.newGoal()
	anyT := types.NewInterfaceType(nil, nil)
	g.declare(V.U, "v", anyT, "Any")
	g.declare(V.U, "n", types.Typ[types.Int], "Int")
	g.assume(V, cxBin(">=", cxID("n"), cxNum(ty.minLenOf(n))))
	var lbls []tyLabel
	var codes []*pnode
	collectLabels(n, false, &lbls, &codes)
	ty.codeHyps(g, codes, rule)
	if err := g.assume(V, ty.known(n, cxID("v"), cxID("n"))); err != nil {
		V.encErrs["typing:"+rule] = err
		return
	}
	ty.emit(g, fmt.Sprintf("grammar.g#typing:%s:alt%s:yields", rule, path), want, nil, "an alternative without action hands on a value of the rule's type")
	ty.nestedActions(rule, n)
}

func (ty *typing) nestedActions(rule string, n *pnode) {
	for _, k := range n.Kids {
		if k.Kind == "actionExpr" {
			ty.actionSite("", k)
		} else {
			ty.nestedActions(rule, k)
		}
	}
}

func (ty *typing) actionSite(rule string, n *pnode) {
	V := ty.V
	ty.sites++
	on := actionName(n.Attr["run"])
	key := "grammar.current." + on
	con := V.CS.ByKey[key]
	fn := V.P.Funcs[key]
	base := fmt.Sprintf("grammar.g#typing:%s:%s", rule, on)
	if fn == nil {
		ty.dec = append(ty.dec, decided(base+":exists", "typing", false, "the table runs "+n.Attr["run"]+" but grammar.go has no "+on, token.NoPos))
		return
	}
	if con == nil {
		ty.dec = append(ty.dec, decided(base+":contract", "typing", false, "action "+on+" has no contract", token.NoPos))
		return
	}
	g := ty.newGoal()
	// receiver and parameters
	params := fn.Params
	if len(params) != len(con.Params) {
		ty.dec = append(ty.dec, decided(base+":params", "typing", false, fmt.Sprintf("contract binds %d parameters, function has %d", len(con.Params), len(params)), token.NoPos))
		return
	}
	for i, p := range params {
		g.declare(V.U, con.Params[i], p.Type(), "")
	}
	body := n.Kids[0]
	var lbls []tyLabel
	var codes []*pnode
	collectLabels(body, false, &lbls, &codes)
	byName := map[string]tyLabel{}
	for _, l := range lbls {
		byName[l.name] = l // the innermost / last label of that name wins, as in the engine's frame
	}
	// receiver: non-nil, c.text is the matched input: its length is at least
	// the sum over the parts of the sequence - the matched length of a part
	// that is a label (a variable n.<label>, itself at least the part's
	// minimum), the minimum of any other part
	lenOf := map[string]*CExpr{}
	var textLen *CExpr
	if len(con.Params) > 0 {
		c := cxID(con.Params[0])
		g.assume(V, cxBin("!=", c, cxID("nil")))
		textLen = cxCall("len", &CExpr{Op: "field", Name: "text", Args: []*CExpr{c}})
		parts := []*pnode{body}
		if body.Kind == "seqExpr" {
			parts = body.Kids
		}
		sum := cxNum(0)
		for _, pt := range parts {
			if pt.Kind == "labeledExpr" {
				nv := "n." + pt.Attr["label"]
				g.declare(V.U, nv, types.Typ[types.Int], "Int")
				g.assume(V, cxBin(">=", cxID(nv), cxNum(ty.minLenOf(pt))))
				lenOf[pt.Attr["label"]] = cxID(nv)
				sum = cxBin("+", sum, cxID(nv))
			} else {
				sum = cxBin("+", sum, cxNum(ty.minLenOf(pt)))
			}
		}
		if err := g.assume(V, cxBin(">=", textLen, sum)); err != nil {
			V.encErrs[base] = err
		}
	}
	for i := 1; i < len(con.Params); i++ {
		pn := fn.Params[i].Name()
		l, ok := byName[pn]
		if !ok {
			ty.dec = append(ty.dec, decided(base+":label:"+pn, "typing", false, "parameter "+pn+" is not a label in scope of the action", token.NoPos))
			continue
		}
		var ln *CExpr
		if !l.weak {
			ln = lenOf[pn]
		}
		h := ty.known(l.expr, cxID(con.Params[i]), ln)
		if l.weak {
			h = cxOr(cxBin("==", cxID(con.Params[i]), cxID("nil")), h)
		}
		if err := g.assume(V, h); err != nil {
			V.encErrs[base+":hyp:"+pn] = err
		}
	}
	ty.codeHyps(g, codes, on)
	// (a) the action's requires
	for _, r := range con.Requires {
		ty.emit(g, base+":pre:"+clauseName(r), r.Expr, r, "label values satisfy the action's precondition")
		g.assume(V, r.Expr)
	}
	// (b) the rule's yields, from the ensures with err == nil
	if rule != "" {
		want := ty.ruleYields(rule, cxID(con.Results[0]), textLen)
		if !cxIsTrue(want) && len(con.Results) == 2 {
			sig := fn.Signature
			g.declare(V.U, con.Results[0], sig.Results().At(0).Type(), "")
			g.declare(V.U, con.Results[1], sig.Results().At(1).Type(), "")
			for _, c := range con.Ensures {
				if err := g.assume(V, c.Expr); err != nil {
					V.encErrs[base+":ensures"] = err
				}
			}
			g.assume(V, cxBin("==", cxID(con.Results[1]), cxID("nil")))
			rc := V.CS.Rules[rule]
			var cl *Clause
			if rc != nil && len(rc.Yields) > 0 {
				cl = rc.Yields[0]
			}
			ty.emit(g, base+":yields", want, cl, "the action's result has the rule's type")
		}
	}
	ty.nestedActions(rule, body)
}

func (V *Verifier) typingObligations(spec *propSpec) (smt, dec []*Oblig) {
	rules, err := loadRuleTable(V.P.RepoDir)
	if err != nil {
		return nil, []*Oblig{decided("grammar.g#typing:table-readable", "typing", false, err.Error(), token.NoPos)}
	}
	ty := &typing{V: V, rules: map[string]*pnode{}, minLen: map[string]int{}}
	for _, r := range rules {
		name := r.Attr["name"]
		ty.rules[name] = r
		ty.order = append(ty.order, name)
	}
	ty.computeMinLens()
	// every rule contract names a rule of the table
	var names []string
	for n := range V.CS.Rules {
		names = append(names, n)
	}
	sort.Strings(names)
	for _, n := range names {
		if ty.rules[n] == nil {
			ty.dec = append(ty.dec, decided("grammar.g#typing:"+n+":rule-exists", "typing", false, "rule contract for "+n+" but the table has no such rule", token.NoPos))
		}
	}
	for _, name := range ty.order {
		r := ty.rules[name]
		if len(r.Kids) == 0 {
			continue
		}
		ty.establish(name, r.Kids[0], "")
	}
	// entry: what Parse's contract promises about an accepted input
	if pc := V.CS.ByKey["grammar.Parse"]; pc != nil && len(ty.order) > 0 {
		for _, c := range pc.Ensures {
			if c.Label != "typed" {
				continue
			}
			g := ty.newGoal()
			fn := V.P.Funcs["grammar.Parse"]
			if fn == nil || len(pc.Results) != 2 {
				break
			}
			sig := fn.Signature
			g.declare(V.U, pc.Results[0], sig.Results().At(0).Type(), "")
			g.declare(V.U, pc.Results[1], sig.Results().At(1).Type(), "")
			g.assume(V, cxBin("==", cxID(pc.Results[1]), cxID("nil")))
			if err := g.assume(V, ty.ruleYields(ty.order[0], cxID(pc.Results[0]), nil)); err != nil {
				V.encErrs["typing:entry"] = err
			}
			ty.emit(g, "grammar.g#typing:entry", c.Expr, c, "the entry rule's type is what Parse promises for an accepted input")
		}
	}
	ty.dec = append(ty.dec, decided("grammar.g#typing:table-read", "typing", ty.sites > 0, fmt.Sprintf("%d rules, %d action sites, %d rule contracts", len(ty.order), ty.sites, len(V.CS.Rules)), token.NoPos))
	return ty.out, ty.dec
}
