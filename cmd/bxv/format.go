package main

import (
	"fmt"
	"go/constant"
	"go/types"
	"strings"

	"golang.org/x/tools/go/ssa"
)

// fmtPiece is a literal chunk or a verb applied to an argument index.
type fmtPiece struct {
	lit  string
	verb byte
	arg  int
}

// parseFormat splits a constant format string (supports %[n]v argument
// indexes; flags/width are rejected -> ok=false).
func parseFormat(f string) (pieces []fmtPiece, ok bool) {
	next := 0
	var lit strings.Builder
	for i := 0; i < len(f); i++ {
		if f[i] != '%' {
			lit.WriteByte(f[i])
			continue
		}
		i++
		if i >= len(f) {
			return nil, false
		}
		if f[i] == '%' {
			lit.WriteByte('%')
			continue
		}
		arg := -1
		if f[i] == '[' {
			j := strings.IndexByte(f[i:], ']')
			if j < 0 {
				return nil, false
			}
			n := 0
			fmt.Sscanf(f[i+1:i+j], "%d", &n)
			arg = n - 1
			i += j + 1
			if i >= len(f) {
				return nil, false
			}
		}
		v := f[i]
		if !strings.ContainsRune("vsdqwTtxX", rune(v)) {
			return nil, false
		}
		if arg < 0 {
			arg = next
		}
		next = arg + 1
		if lit.Len() > 0 {
			pieces = append(pieces, fmtPiece{lit: lit.String()})
			lit.Reset()
		}
		pieces = append(pieces, fmtPiece{verb: v, arg: arg})
	}
	if lit.Len() > 0 {
		pieces = append(pieces, fmtPiece{lit: lit.String()})
	}
	return pieces, true
}

// constFormat returns the constant format string of a call argument.
func constFormat(v ssa.Value) (string, bool) {
	c, ok := v.(*ssa.Const)
	if !ok || c.Value == nil || c.Value.Kind() != constant.String {
		return "", false
	}
	return constant.StringVal(c.Value), true
}

// expandFormat builds the Str term of fmt.Sprintf(format, args...) for a
// constant format and a literal argument slice.
func (e *fnEnc) expandFormat(format string, argsLit string) (string, bool) {
	pieces, ok := parseFormat(format)
	if !ok {
		return "", false
	}
	vals, isLit := e.litVals[argsLit]
	if !isLit && len(pieces) > 0 {
		for _, p := range pieces {
			if p.verb != 0 {
				return "", false
			}
		}
	}
	term := ""
	add := func(t string) {
		if term == "" {
			term = t
		} else {
			term = fmt.Sprintf("(s.cat %s %s)", term, t)
		}
	}
	for _, p := range pieces {
		if p.verb == 0 {
			add(e.U.strLit(p.lit))
			continue
		}
		if p.arg >= len(vals) {
			return "", false
		}
		add(e.fmtArg(p.verb, vals[p.arg]))
	}
	if term == "" {
		term = "s.empty"
	}
	return term, true
}

// fmtArg renders one argument under a verb.
func (e *fnEnc) fmtArg(verb byte, v ssa.Value) string {
	U := e.U
	// look through the interface boxing
	var inner ssa.Value = v
	if mi, ok := v.(*ssa.MakeInterface); ok {
		inner = mi.X
	}
	t := e.get(inner)
	it := inner.Type()
	switch verb {
	case 'd':
		if t.Sort == "Int" {
			return fmt.Sprintf("(specItoa %s)", t.S)
		}
	case 's', 'v':
		// a type with a String method renders through it
		if key, ok := stringMethodKey(it); ok {
			if _, has := e.V.CS.ByKey[key]; has {
				return fmt.Sprintf("(%s %s)", e.V.stringSpecFn(key, t.Sort), t.S)
			}
		}
		if t.Sort == "Str" {
			return t.S
		}
		if t.Sort == "Int" && verb == 'v' {
			if b, ok := types.Unalias(it).Underlying().(*types.Basic); ok && b.Info()&types.IsInteger != 0 {
				if _, named := types.Unalias(it).(*types.Named); !named {
					return fmt.Sprintf("(specItoa %s)", t.S)
				}
			}
		}
	case 'q':
		if t.Sort == "Str" {
			return fmt.Sprintf("(specQuote %s)", t.S)
		}
	}
	// anything else: an uninterpreted rendering of the boxed value
	bt := e.get(v)
	if bt.Sort != "Any" {
		bt = Term{S: U.boxTerm(v.Type(), bt.S), Sort: "Any"}
	}
	return fmt.Sprintf("(fmtVerb %d %s)", int(verb), bt.S)
}

// stringMethodKey: contract key of T.String if the type has one in the repo.
func stringMethodKey(t types.Type) (string, bool) {
	t = types.Unalias(t)
	if p, ok := t.(*types.Pointer); ok {
		t = types.Unalias(p.Elem())
	}
	n, ok := t.(*types.Named)
	if !ok || n.Obj().Pkg() == nil {
		return "", false
	}
	for i := 0; i < n.NumMethods(); i++ {
		if n.Method(i).Name() == "String" {
			return n.Obj().Pkg().Name() + "." + n.Obj().Name() + ".String", true
		}
	}
	return "", false
}

// stringSpecFn: the spec function naming the result of a String method
// (declared in the prelude as str.<key>); falls back to an uninterpreted one.
func (V *Verifier) stringSpecFn(key, argSort string) string {
	name := "str." + key
	if _, ok := V.U.Sigs[name]; !ok {
		V.U.Sigs[name] = &Sig{Name: name, Args: []string{argSort}, Res: "Str"}
		V.U.extra = append(V.U.extra, fmt.Sprintf("(declare-fun %s (%s) Str)", name, argSort))
	}
	return name
}
