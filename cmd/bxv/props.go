package main

// Property table: which functions' obligations decide which property, and
// which additional engines (frame walks, table validation, bounded stand-ins)
// take part. Clause-level tags in the contract files ([C02], ...) refine this:
// a post/invariant clause tagged with other properties only is left to them.

type propSpec struct {
	ID             string
	Level          string // evidence level
	Funcs          []string
	Lemmas         []string // lemma name prefixes
	Extras         []string // names of extra engines: "frame:write", "frame:read-selector-type", ...
	Trusted        []string // assumption ids this property leans on
	Rule           string
	NoBattery      bool   // no executable oracle to replay against
	BatteryIsCheck bool   // the bounded run is (part of) the decision itself (exploration level)
	DistinctKey    string // battery stat that counts distinct non-trivial cases
	// SafetyClosure: entry points whose whole reachable repo code is encoded for
	// this property, contract or not - a function that appears in the call graph
	// tomorrow is swept for run-time panics without anybody listing it
	SafetyClosure []string
}

var evalChain = []string{
	// what Evaluate works on is what CreateEvaluator stored: the parsed tree, unchanged
	"bexpr.CreateEvaluator", "bexpr.CreateFilter", "bexpr.compileRegexps",
	"bexpr.Evaluator.Evaluate", "bexpr.evaluate", "bexpr.evaluateMatchExpression", "bexpr.evaluateCollectionExpression",
	"bexpr.evaluateCollectionExpression$1",
	"bexpr.getValue", "bexpr.evaluateNotPresent", "bexpr.doMatchEqual", "bexpr.doMatchIn", "bexpr.doMatchIsEmpty",
	"bexpr.doMatchMatches", "bexpr.getMatchExprValue", "bexpr.primitiveEqualityFn", "bexpr.doEqualBool", "bexpr.doEqualInt64",
	"bexpr.doEqualUint64", "bexpr.doEqualFloat32", "bexpr.doEqualFloat64", "bexpr.doEqualString", "bexpr.derefType", "bexpr.derefValue",
	"bexpr.CoerceInt64", "bexpr.CoerceUint64", "bexpr.CoerceBool", "bexpr.CoerceFloat32", "bexpr.CoerceFloat64",
	"bexpr.getOpts", "bexpr.getDefaultOptions", "bexpr.WithTagName", "bexpr.WithTagName$1", "bexpr.WithHookFn", "bexpr.WithHookFn$1",
	"bexpr.WithUnknownValue", "bexpr.WithUnknownValue$1", "bexpr.WithLocalVariable", "bexpr.WithLocalVariable$1",
	"bexpr.WithMaxExpressions", "bexpr.WithMaxExpressions$1",
	"grammar.MatchOperator.NotPresentDisposition", "grammar.Selector.String",
}

var propTable = map[string]*propSpec{}

// the semantic actions of the grammar (filled in init from the loaded program's naming scheme)
var actionFuncs = []string{"grammar.current.onInput2", "grammar.current.onInput17", "grammar.current.onOrExpression11", "grammar.current.onOrExpression14", "grammar.current.onAndExpression11", "grammar.current.onNotExpression8", "grammar.current.onParenthesizedExpression2", "grammar.current.onParenthesizedExpression12", "grammar.current.onSelectorOrIndex2", "grammar.current.onSelectorOrIndex7", "grammar.current.onIndexExpression2", "grammar.current.onOrExpression2", "grammar.current.onAndExpression2", "grammar.current.onNotExpression2", "grammar.current.onCollectionExpression1", "grammar.current.onCollectionIdentifiers2", "grammar.current.onCollectionIdentifiers13", "grammar.current.onCollectionIdentifiers23", "grammar.current.onCollectionIdentifiers33", "grammar.current.onCollectionOpAny1", "grammar.current.onCollectionOpAll1", "grammar.current.onParenthesizedExpression24", "grammar.current.onIndexExpression18", "grammar.current.onIndexExpression28", "grammar.current.onNumberLiteral15", "grammar.current.onStringLiteral25", "grammar.current.onMatchValueOpSelector20", "grammar.current.onMatchSelectorOpValue1", "grammar.current.onMatchSelectorOp1", "grammar.current.onMatchValueOpSelector2", "grammar.current.onMatchEqual1", "grammar.current.onMatchNotEqual1", "grammar.current.onMatchIsEmpty1", "grammar.current.onMatchIsNotEmpty1", "grammar.current.onMatchIn1", "grammar.current.onMatchNotIn1", "grammar.current.onMatchContains1", "grammar.current.onMatchNotContains1", "grammar.current.onMatchMatches1", "grammar.current.onMatchNotMatches1", "grammar.current.onIdentifier1", "grammar.current.onNumberLiteral2", "grammar.current.onJsonPointerSegment1", "grammar.current.onSelectorOrIndex10", "grammar.current.onStringLiteral2", "grammar.current.onValue5", "grammar.current.onValue8", "grammar.current.onValue2", "grammar.current.onSelector2", "grammar.current.onSelector9"}
var selectorActionFuncs = []string{"grammar.current.onSelector2", "grammar.current.onSelector9", "grammar.current.onJsonPointerSegment1", "grammar.current.onIdentifier1",
	"grammar.current.onSelectorOrIndex2", "grammar.current.onSelectorOrIndex7", "grammar.current.onSelectorOrIndex10", "grammar.current.onIndexExpression2"}

// parser actions a property observed on expression *text* depends on
var boolActionFuncs = []string{"grammar.current.onOrExpression2", "grammar.current.onAndExpression2", "grammar.current.onNotExpression2"}
var operatorActionFuncs = []string{"grammar.current.onMatchEqual1", "grammar.current.onMatchNotEqual1", "grammar.current.onMatchIsEmpty1", "grammar.current.onMatchIsNotEmpty1",
	"grammar.current.onMatchIn1", "grammar.current.onMatchNotIn1", "grammar.current.onMatchContains1", "grammar.current.onMatchNotContains1", "grammar.current.onMatchMatches1", "grammar.current.onMatchNotMatches1",
	"grammar.current.onMatchSelectorOpValue1", "grammar.current.onMatchSelectorOp1", "grammar.current.onMatchValueOpSelector2"}
var collectionActionFuncs = []string{"grammar.current.onCollectionExpression1", "grammar.current.onCollectionIdentifiers2", "grammar.current.onCollectionIdentifiers13",
	"grammar.current.onCollectionIdentifiers23", "grammar.current.onCollectionIdentifiers33", "grammar.current.onCollectionOpAny1", "grammar.current.onCollectionOpAll1"}

var baseTrust = []string{"A-GEN", "A-SSA", "A-REFLECT", "A-STRCONV", "A-FMT", "A-ERRORS", "A-OPTS", "A-FN", "A-SEQ", "A-STR", "A-GLOBALS"}

func trust(extra ...string) []string { return append(append([]string(nil), baseTrust...), extra...) }

var optFuncs = []string{"bexpr.getOpts", "bexpr.getDefaultOptions", "bexpr.WithTagName", "bexpr.WithTagName$1", "bexpr.WithHookFn", "bexpr.WithHookFn$1",
	"bexpr.WithUnknownValue", "bexpr.WithUnknownValue$1", "bexpr.WithLocalVariable", "bexpr.WithLocalVariable$1",
	"bexpr.WithMaxExpressions", "bexpr.WithMaxExpressions$1"}

// the PEG engine's node methods (value passing: C10; backtracking hygiene: C15; budget: C11)
var engineFuncs = []string{"grammar.parser.failAt", "grammar.parser.parseExpr", "grammar.parser.parseRule", "grammar.parser.parseActionExpr", "grammar.parser.parseAndCodeExpr", "grammar.parser.parseAndExpr",
	"grammar.parser.parseAnyMatcher", "grammar.parser.parseCharClassMatcher", "grammar.parser.parseChoiceExpr", "grammar.parser.parseLabeledExpr", "grammar.parser.parseLitMatcher",
	"grammar.parser.parseNotCodeExpr", "grammar.parser.parseNotExpr", "grammar.parser.parseOneOrMoreExpr", "grammar.parser.parseRecoveryExpr", "grammar.parser.parseRuleRefExpr",
	"grammar.parser.parseSeqExpr", "grammar.parser.parseThrowExpr", "grammar.parser.parseZeroOrMoreExpr", "grammar.parser.parseZeroOrOneExpr"}

// withChain: a property observed at Evaluate depends on every link between
// Evaluate and the code that implements it - a change in any link (a
// post-processing step in evaluate(), a fast path in a dispatcher) must fail
// under that property's own check, not only under C01's.
func withChain(extra ...string) []string {
	out := append([]string(nil), evalChain...)
	have := map[string]bool{}
	for _, k := range out {
		have[k] = true
	}
	for _, k := range extra {
		if !have[k] {
			have[k] = true
			out = append(out, k)
		}
	}
	return out
}

func init() {
	add := func(p *propSpec) { propTable[p.ID] = p }
	add(&propSpec{ID: "C01", Level: "proof", Funcs: evalChain,
		Trusted: trust("A-JSON", "A-REGEXP", "A-STRINGS", "A-PS", "A-HOOK", "A-SORT", "A-STACK")})
	add(&propSpec{ID: "C02", Level: "proof", Funcs: withChain([]string{"bexpr.CoerceInt64", "bexpr.CoerceUint64", "bexpr.CoerceBool", "bexpr.CoerceFloat32", "bexpr.CoerceFloat64",
		"bexpr.getMatchExprValue", "bexpr.primitiveEqualityFn", "bexpr.doEqualBool", "bexpr.doEqualInt64", "bexpr.doEqualUint64", "bexpr.doEqualFloat32",
		"bexpr.doEqualFloat64", "bexpr.doEqualString", "bexpr.doMatchEqual", "bexpr.evaluateMatchExpression"}...),
		Trusted: trust("A-JSON", "A-PS")})
	add(&propSpec{ID: "C03", Level: "proof", Funcs: withChain(append(append([]string(nil), boolActionFuncs...), []string{"bexpr.evaluate"}...)...), Trusted: trust("A-STACK")})
	add(&propSpec{ID: "C04", Level: "proof", Funcs: withChain(append(append([]string(nil), operatorActionFuncs...), []string{"bexpr.evaluateMatchExpression", "grammar.MatchOperator.NotPresentDisposition", "bexpr.doMatchIsEmpty", "bexpr.doMatchEqual", "bexpr.doMatchIn", "bexpr.doMatchMatches"}...)...),
		Trusted: trust("A-PS", "A-REGEXP", "A-STRINGS", "A-JSON")})
	add(&propSpec{ID: "C05", Level: "proof", Funcs: withChain(append([]string{"bexpr.getValue", "bexpr.evaluateNotPresent", "bexpr.derefValue", "grammar.MatchOperator.NotPresentDisposition",
		"bexpr.evaluateMatchExpression", "bexpr.evaluateCollectionExpression", "bexpr.Evaluator.Evaluate"}, optFuncs...)...),
		Trusted: trust("A-PS", "A-HOOK")})
	add(&propSpec{ID: "C06", Level: "proof", Funcs: withChain(append(append([]string(nil), collectionActionFuncs...), append([]string{"bexpr.evaluateCollectionExpression", "bexpr.evaluateCollectionExpression$1", "bexpr.getValue"}, optFuncs...)...)...),
		Trusted: trust("A-PS", "A-SORT", "A-STACK")})
	// determinism is a consequence of the functional posts (the result is a spec function of the
	// arguments, with the key enumeration unconstrained): every function of the chain counts
	add(&propSpec{ID: "C14", Level: "proof", Funcs: append(append([]string(nil), evalChain...), "bexpr.Filter.Execute"),
		Trusted: trust("A-SORT", "A-PS")})
	add(&propSpec{ID: "C18", Level: "proof", Funcs: withChain(append([]string{"bexpr.Evaluator.Evaluate", "bexpr.evaluate", "bexpr.evaluateMatchExpression", "bexpr.evaluateCollectionExpression", "bexpr.evaluateCollectionExpression$1", "bexpr.getValue", "bexpr.evaluateNotPresent", "bexpr.Filter.Execute", "bexpr.CreateEvaluator", "bexpr.CreateFilter", "grammar.MaxExpressions"}, optFuncs...)...),
		Trusted: trust("A-PS", "A-HOOK")})
	add(&propSpec{ID: "C10", Level: "proof", Funcs: []string{"bexpr.CreateEvaluator", "bexpr.CreateFilter", "bexpr.compileRegexps", "grammar.MaxExpressions", "grammar.parser.parse", "grammar.parser.parse$1", "grammar.errList.add", "grammar.errList.err", "grammar.errList.dedupe", "grammar.parser.addErr", "grammar.parser.addErrAt",
		// the engine's value passing (ensures "yields" / "shape" / "fail_nil" against spec/27-peg.smt2)
		"grammar.parser.parseExpr", "grammar.parser.parseRule", "grammar.parser.parseActionExpr", "grammar.parser.parseAndCodeExpr", "grammar.parser.parseAndExpr", "grammar.parser.parseAnyMatcher",
		"grammar.parser.parseCharClassMatcher", "grammar.parser.parseChoiceExpr", "grammar.parser.parseLabeledExpr", "grammar.parser.parseLitMatcher", "grammar.parser.parseNotCodeExpr", "grammar.parser.parseNotExpr",
		"grammar.parser.parseOneOrMoreExpr", "grammar.parser.parseRuleRefExpr", "grammar.parser.parseSeqExpr", "grammar.parser.parseZeroOrMoreExpr", "grammar.parser.parseZeroOrOneExpr"},
		SafetyClosure: []string{"bexpr.CreateEvaluator", "bexpr.CreateFilter"},
		Extras:        []string{"table:typing"}, Trusted: trust("A-ENGINE", "A-ACYCLIC", "A-STACK", "A-REGEXP")})
	add(&propSpec{ID: "C11", Level: "proof", Funcs: []string{"grammar.parser.parseExpr", "grammar.parser.parseRule", "grammar.parser.parseActionExpr", "grammar.parser.parseAndCodeExpr",
		"grammar.parser.parseAndExpr", "grammar.parser.parseAnyMatcher", "grammar.parser.parseCharClassMatcher", "grammar.parser.parseChoiceExpr", "grammar.parser.parseLabeledExpr",
		"grammar.parser.parseLitMatcher", "grammar.parser.parseNotCodeExpr", "grammar.parser.parseNotExpr", "grammar.parser.parseOneOrMoreExpr", "grammar.parser.parseRecoveryExpr",
		"grammar.parser.parseRuleRefExpr", "grammar.parser.parseSeqExpr", "grammar.parser.parseThrowExpr", "grammar.parser.parseZeroOrMoreExpr", "grammar.parser.parseZeroOrOneExpr",
		"grammar.newParser", "grammar.parser.setOptions", "grammar.MaxExpressions", "grammar.MaxExpressions$1", "grammar.Recover$1", "grammar.Entrypoint$1", "grammar.AllowInvalidUTF8$1", "grammar.GlobalStore$1",
		"bexpr.CreateEvaluator", "bexpr.WithMaxExpressions", "bexpr.WithMaxExpressions$1", "bexpr.getOpts", "grammar.parser.parse", "grammar.parser.parse$1", "grammar.errList.add", "grammar.errList.err", "grammar.errList.dedupe", "grammar.parser.addErr", "grammar.parser.addErrAt"},
		Extras: []string{"frame:budget-fields"}, Trusted: trust("A-ARITH-1", "A-ENGINE", "A-STACK")})
	add(&propSpec{ID: "C19", Level: "proof", Funcs: []string{"grammar.UnaryExpression.ExpressionDump", "grammar.BinaryExpression.ExpressionDump", "grammar.MatchExpression.ExpressionDump",
		"grammar.CollectionExpression.ExpressionDump", "grammar.Selector.String", "grammar.UnaryOperator.String", "grammar.BinaryOperator.String", "grammar.MatchOperator.String",
		"grammar.CollectionNameBinding.String"},
		SafetyClosure: []string{"grammar.UnaryExpression.ExpressionDump", "grammar.BinaryExpression.ExpressionDump", "grammar.MatchExpression.ExpressionDump", "grammar.CollectionExpression.ExpressionDump"},
		Extras:        []string{"frame:write:grammar.UnaryExpression.ExpressionDump,grammar.BinaryExpression.ExpressionDump,grammar.MatchExpression.ExpressionDump,grammar.CollectionExpression.ExpressionDump"},
		Trusted:       trust("A-FMT", "A-STRINGS", "A-ARITH-2", "A-STACK", "A-ENGINE")})
	add(&propSpec{ID: "C15", Level: "exploration", BatteryIsCheck: true, DistinctKey: "accepted_distinct", Funcs: append(append([]string(nil), actionFuncs...), engineFuncs...),
		Rule:    "every sequence of <= 2 tokens over a 46-token alphabet (keywords, keywords as identifier prefixes, operators, punctuation, numbers incl. malformed, quoted/backtick/pointer/unterminated/bad-escape strings, an invalid UTF-8 byte) and <= 3 tokens over a 20-token core (thorough: <= 3 and <= 4), each with every assignment of {\"\", \" \"} to the gaps, plus ~110 complete statements; grammar.Parse is compared with an independent hand-written PEG recognizer/AST builder (accept/reject and deep equality of the tree). distinct_nontrivial = distinct inputs accepted by both",
		Trusted: []string{"A-GEN", "A-ENGINE", "the reference parser /verif/replay/zz_bxv_refparse_test.go is the oracle"}})
	add(&propSpec{ID: "C16", Level: "exploration", BatteryIsCheck: true, DistinctKey: "distinct_texts", Funcs: append(append([]string(nil), actionFuncs...), "bexpr.CreateEvaluator", "bexpr.CreateFilter"),
		Rule:    "trees of depth <= 2 over 3 selectors x 8 operators x 4 literals x not/and/or x any/all with 4 binding modes (thinned to ~1500 in the quick tier), each rendered under 4 layouts (thorough: 76) choosing whitespace, redundant parentheses, quote style, selector spelling and in/contains; parsed back with grammar.Parse and compared with the tree (modulo Selector.Type); plus X == <quoted s> on X = s and X = s+\"x\" for 226 strings in both quote styles. distinct_nontrivial = distinct rendered texts",
		Trusted: []string{"A-GEN", "A-ENGINE"}})
	add(&propSpec{ID: "C07", Level: "proof", Funcs: withChain(append([]string{"bexpr.getValue", "bexpr.evaluateMatchExpression", "bexpr.evaluateCollectionExpression", "grammar.Selector.String"}, selectorActionFuncs...)...),
		// which text reaches which selector action is the grammar's business: the bounded
		// spelling run is part of the check (labelled bounded, never counted as proved)
		BatteryIsCheck: true, DistinctKey: "spellings",
		Rule:   "every path r.k1.k2[.z] over 18 keys (identifiers, digits, zero-padded digits, non-ASCII numerals, ~ / escapes, case, unicode, : | . -) in the dotted, [\"k\"], [`k`] and JSON-pointer spelling wherever grammar.peg admits that spelling, under 7 expression templates (both sides of in, is empty, matches, inside any, under not); each spelling must be accepted and evaluate like the bracket spelling; plus quantified collections and quantifier bodies in every spelling and the path cases of C05",
		Extras: []string{"read:selector-type"}, Trusted: trust("A-PS", "A-ENGINE")})
	add(&propSpec{ID: "C20", Level: "translation_validation", Extras: []string{"table:peg"}, NoBattery: true,
		Trusted: []string{"A-GEN"}})
	add(&propSpec{ID: "C08", Level: "proof", Funcs: withChain([]string{"bexpr.getValue", "bexpr.evaluateNotPresent", "bexpr.doMatchIsEmpty", "bexpr.doMatchEqual", "bexpr.doMatchIn", "bexpr.doMatchMatches",
		"bexpr.doEqualString", "bexpr.evaluateCollectionExpression$1", "bexpr.Evaluator.Evaluate", "bexpr.Filter.Execute"}...),
		Extras: []string{"read:no-struct-content"}, Trusted: trust("A-PS", "A-HOOK", "A-EXT-PURE")})
	add(&propSpec{ID: "C12", Level: "proof", Funcs: []string{"bexpr.doMatchMatches", "bexpr.compileRegexps"},
		Extras:  []string{"frame:write:bexpr.Evaluator.Evaluate,bexpr.Filter.Execute,bexpr.CreateEvaluator,bexpr.CreateFilter,bexpr.Evaluator.Expression", "frame:no-concurrency"},
		Trusted: trust("A-DRF", "A-REGEXP", "A-PS", "A-HOOK", "A-EXT-PURE")})
	add(&propSpec{ID: "C13", Level: "proof", Funcs: []string{"bexpr.doMatchMatches", "bexpr.Evaluator.Expression", "bexpr.Evaluator.Evaluate", "bexpr.Filter.Execute"},
		Extras:  []string{"frame:write:bexpr.Evaluator.Evaluate,bexpr.Filter.Execute,bexpr.Evaluator.Expression"},
		Trusted: trust("A-PS", "A-HOOK", "A-EXT-PURE", "A-REGEXP")})
	add(&propSpec{ID: "C17", Level: "proof", Funcs: []string{"bexpr.Filter.Execute"}, Trusted: trust("A-PS")})
	add(&propSpec{ID: "C09", Level: "proof", Funcs: evalChain, SafetyClosure: []string{"bexpr.Evaluator.Evaluate", "bexpr.Filter.Execute"},
		Trusted: trust("A-JSON", "A-REGEXP", "A-STRINGS", "A-PS", "A-HOOK", "A-SORT", "A-STACK")})
}
