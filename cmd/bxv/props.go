package main

// Property table: which functions' obligations decide which property, and
// which additional engines (frame walks, table validation, bounded stand-ins)
// take part. Clause-level tags in the contract files ([C02], ...) refine this:
// a post/invariant clause tagged with other properties only is left to them.

type propSpec struct {
	ID       string
	Level    string // evidence level
	Funcs    []string
	Lemmas   []string // lemma name prefixes
	Extras   []string // names of extra engines: "frame:write", "frame:read-selector-type", ...
	Trusted  []string // assumption ids this property leans on
	Rule     string
}

var evalChain = []string{
	"bexpr.Evaluator.Evaluate", "bexpr.evaluate", "bexpr.evaluateMatchExpression", "bexpr.evaluateCollectionExpression",
	"bexpr.evaluateCollectionExpression$1",
	"bexpr.getValue", "bexpr.evaluateNotPresent", "bexpr.doMatchEqual", "bexpr.doMatchIn", "bexpr.doMatchIsEmpty",
	"bexpr.doMatchMatches", "bexpr.getMatchExprValue", "bexpr.primitiveEqualityFn", "bexpr.doEqualBool", "bexpr.doEqualInt64",
	"bexpr.doEqualUint64", "bexpr.doEqualFloat32", "bexpr.doEqualFloat64", "bexpr.doEqualString", "bexpr.derefType", "bexpr.derefValue",
	"bexpr.CoerceInt64", "bexpr.CoerceUint64", "bexpr.CoerceBool", "bexpr.CoerceFloat32", "bexpr.CoerceFloat64",
	"bexpr.getOpts", "bexpr.getDefaultOptions", "bexpr.WithTagName", "bexpr.WithTagName$1", "bexpr.WithHookFn", "bexpr.WithHookFn$1",
	"bexpr.WithUnknownValue", "bexpr.WithUnknownValue$1", "bexpr.WithLocalVariable", "bexpr.WithLocalVariable$1",
	"bexpr.WithMaxExpressions", "bexpr.WithMaxExpressions$1",
	"grammar.MatchOperator.NotPresentDisposition", "grammar.Selector.String",
}

var propTable = map[string]*propSpec{}

func init() {
	add := func(p *propSpec) { propTable[p.ID] = p }
	add(&propSpec{ID: "C09", Level: "proof", Funcs: evalChain,
		Trusted: []string{"A-GEN", "A-SSA", "A-REFLECT", "A-STRCONV", "A-REGEXP", "A-STRINGS", "A-FMT", "A-ERRORS", "A-JSON", "A-PS", "A-HOOK", "A-OPTS", "A-SORT", "A-STACK", "A-SEQ"}})
}
