package main

// Property table: which functions' obligations decide which property, and
// which additional engines (frame walks, table validation, bounded stand-ins)
// take part. Clause-level tags in the contract files ([C02], ...) refine this:
// a post/invariant clause tagged with other properties only is left to them.

type propSpec struct {
	ID       string
	Level    string // evidence level
	Funcs    []string
	Lemmas   []string // lemma name prefixes
	Extras   []string // names of extra engines: "frame:write", "frame:read-selector-type", ...
	Trusted  []string // assumption ids this property leans on
	Rule     string
	NoBattery bool // no executable oracle to replay against
}

var evalChain = []string{
	"bexpr.Evaluator.Evaluate", "bexpr.evaluate", "bexpr.evaluateMatchExpression", "bexpr.evaluateCollectionExpression",
	"bexpr.evaluateCollectionExpression$1",
	"bexpr.getValue", "bexpr.evaluateNotPresent", "bexpr.doMatchEqual", "bexpr.doMatchIn", "bexpr.doMatchIsEmpty",
	"bexpr.doMatchMatches", "bexpr.getMatchExprValue", "bexpr.primitiveEqualityFn", "bexpr.doEqualBool", "bexpr.doEqualInt64",
	"bexpr.doEqualUint64", "bexpr.doEqualFloat32", "bexpr.doEqualFloat64", "bexpr.doEqualString", "bexpr.derefType", "bexpr.derefValue",
	"bexpr.CoerceInt64", "bexpr.CoerceUint64", "bexpr.CoerceBool", "bexpr.CoerceFloat32", "bexpr.CoerceFloat64",
	"bexpr.getOpts", "bexpr.getDefaultOptions", "bexpr.WithTagName", "bexpr.WithTagName$1", "bexpr.WithHookFn", "bexpr.WithHookFn$1",
	"bexpr.WithUnknownValue", "bexpr.WithUnknownValue$1", "bexpr.WithLocalVariable", "bexpr.WithLocalVariable$1",
	"bexpr.WithMaxExpressions", "bexpr.WithMaxExpressions$1",
	"grammar.MatchOperator.NotPresentDisposition", "grammar.Selector.String",
}

var propTable = map[string]*propSpec{}

var baseTrust = []string{"A-GEN", "A-SSA", "A-REFLECT", "A-STRCONV", "A-FMT", "A-ERRORS", "A-OPTS", "A-FN", "A-SEQ", "A-STR", "A-GLOBALS"}

func trust(extra ...string) []string { return append(append([]string(nil), baseTrust...), extra...) }

var optFuncs = []string{"bexpr.getOpts", "bexpr.getDefaultOptions", "bexpr.WithTagName", "bexpr.WithTagName$1", "bexpr.WithHookFn", "bexpr.WithHookFn$1",
	"bexpr.WithUnknownValue", "bexpr.WithUnknownValue$1", "bexpr.WithLocalVariable", "bexpr.WithLocalVariable$1",
	"bexpr.WithMaxExpressions", "bexpr.WithMaxExpressions$1"}

func init() {
	add := func(p *propSpec) { propTable[p.ID] = p }
	add(&propSpec{ID: "C01", Level: "proof", Funcs: evalChain,
		Trusted: trust("A-JSON", "A-REGEXP", "A-STRINGS", "A-PS", "A-HOOK", "A-SORT", "A-STACK")})
	add(&propSpec{ID: "C02", Level: "proof", Funcs: []string{"bexpr.CoerceInt64", "bexpr.CoerceUint64", "bexpr.CoerceBool", "bexpr.CoerceFloat32", "bexpr.CoerceFloat64",
		"bexpr.getMatchExprValue", "bexpr.primitiveEqualityFn", "bexpr.doEqualBool", "bexpr.doEqualInt64", "bexpr.doEqualUint64", "bexpr.doEqualFloat32",
		"bexpr.doEqualFloat64", "bexpr.doEqualString", "bexpr.doMatchEqual", "bexpr.evaluateMatchExpression"},
		Trusted: trust("A-JSON", "A-PS")})
	add(&propSpec{ID: "C03", Level: "proof", Funcs: []string{"bexpr.evaluate"}, Trusted: trust("A-STACK")})
	add(&propSpec{ID: "C04", Level: "proof", Funcs: []string{"bexpr.evaluateMatchExpression", "grammar.MatchOperator.NotPresentDisposition", "bexpr.doMatchIsEmpty", "bexpr.doMatchEqual", "bexpr.doMatchIn", "bexpr.doMatchMatches"},
		Trusted: trust("A-PS", "A-REGEXP", "A-STRINGS", "A-JSON")})
	add(&propSpec{ID: "C05", Level: "proof", Funcs: append([]string{"bexpr.getValue", "bexpr.evaluateNotPresent", "bexpr.derefValue", "grammar.MatchOperator.NotPresentDisposition",
		"bexpr.evaluateMatchExpression", "bexpr.evaluateCollectionExpression", "bexpr.Evaluator.Evaluate"}, optFuncs...),
		Trusted: trust("A-PS", "A-HOOK")})
	add(&propSpec{ID: "C06", Level: "proof", Funcs: append([]string{"bexpr.evaluateCollectionExpression", "bexpr.evaluateCollectionExpression$1", "bexpr.getValue"}, optFuncs...),
		Trusted: trust("A-PS", "A-SORT", "A-STACK")})
	add(&propSpec{ID: "C14", Level: "proof", Funcs: []string{"bexpr.evaluateCollectionExpression", "bexpr.evaluateCollectionExpression$1"},
		Trusted: trust("A-SORT", "A-PS")})
	add(&propSpec{ID: "C18", Level: "proof", Funcs: append([]string{"bexpr.Evaluator.Evaluate", "bexpr.getValue", "bexpr.CreateEvaluator", "bexpr.CreateFilter", "grammar.MaxExpressions"}, optFuncs...),
		Trusted: trust("A-PS", "A-HOOK")})
	add(&propSpec{ID: "C10", Level: "proof", Funcs: []string{"bexpr.CreateEvaluator", "bexpr.CreateFilter", "bexpr.compileRegexps", "grammar.MaxExpressions"},
		Trusted: trust("A-ENGINE", "A-STACK", "A-REGEXP")})
	add(&propSpec{ID: "C11", Level: "proof", Funcs: []string{"grammar.parser.parseExpr", "grammar.parser.parseRule", "grammar.parser.parseActionExpr", "grammar.parser.parseAndCodeExpr",
		"grammar.parser.parseAndExpr", "grammar.parser.parseAnyMatcher", "grammar.parser.parseCharClassMatcher", "grammar.parser.parseChoiceExpr", "grammar.parser.parseLabeledExpr",
		"grammar.parser.parseLitMatcher", "grammar.parser.parseNotCodeExpr", "grammar.parser.parseNotExpr", "grammar.parser.parseOneOrMoreExpr", "grammar.parser.parseRecoveryExpr",
		"grammar.parser.parseRuleRefExpr", "grammar.parser.parseSeqExpr", "grammar.parser.parseThrowExpr", "grammar.parser.parseZeroOrMoreExpr", "grammar.parser.parseZeroOrOneExpr",
		"grammar.newParser", "grammar.parser.setOptions", "grammar.MaxExpressions", "grammar.MaxExpressions$1", "grammar.Recover$1", "grammar.Entrypoint$1", "grammar.AllowInvalidUTF8$1", "grammar.GlobalStore$1",
		"bexpr.CreateEvaluator", "bexpr.WithMaxExpressions", "bexpr.WithMaxExpressions$1", "bexpr.getOpts"},
		Extras: []string{"frame:budget-fields"}, Trusted: trust("A-ARITH-1", "A-ENGINE", "A-STACK")})
	add(&propSpec{ID: "C19", Level: "proof", Funcs: []string{"grammar.UnaryExpression.ExpressionDump", "grammar.BinaryExpression.ExpressionDump", "grammar.MatchExpression.ExpressionDump",
		"grammar.CollectionExpression.ExpressionDump", "grammar.Selector.String", "grammar.UnaryOperator.String", "grammar.BinaryOperator.String", "grammar.MatchOperator.String",
		"grammar.CollectionNameBinding.String"}, Extras: []string{"frame:write:grammar.UnaryExpression.ExpressionDump,grammar.BinaryExpression.ExpressionDump,grammar.MatchExpression.ExpressionDump,grammar.CollectionExpression.ExpressionDump"},
		Trusted: trust("A-FMT", "A-STRINGS", "A-ARITH-2", "A-STACK", "A-ENGINE")})
	add(&propSpec{ID: "C20", Level: "translation_validation", Extras: []string{"table:peg"}, NoBattery: true,
		Trusted: []string{"A-GEN"}})
	add(&propSpec{ID: "C08", Level: "proof", Funcs: []string{"bexpr.getValue", "bexpr.evaluateNotPresent", "bexpr.doMatchIsEmpty", "bexpr.doMatchEqual", "bexpr.doMatchIn", "bexpr.doMatchMatches",
		"bexpr.doEqualString", "bexpr.evaluateCollectionExpression$1", "bexpr.Evaluator.Evaluate", "bexpr.Filter.Execute"},
		Extras: []string{"read:no-struct-content"}, Trusted: trust("A-PS", "A-HOOK", "A-EXT-PURE")})
	add(&propSpec{ID: "C12", Level: "proof", Funcs: []string{"bexpr.doMatchMatches", "bexpr.compileRegexps"},
		Extras:  []string{"frame:write:bexpr.Evaluator.Evaluate,bexpr.Filter.Execute,bexpr.CreateEvaluator,bexpr.CreateFilter,bexpr.Evaluator.Expression", "frame:no-concurrency"},
		Trusted: trust("A-DRF", "A-REGEXP", "A-PS", "A-HOOK", "A-EXT-PURE")})
	add(&propSpec{ID: "C13", Level: "proof", Funcs: []string{"bexpr.doMatchMatches", "bexpr.Evaluator.Expression", "bexpr.Evaluator.Evaluate", "bexpr.Filter.Execute"},
		Extras:  []string{"frame:write:bexpr.Evaluator.Evaluate,bexpr.Filter.Execute,bexpr.Evaluator.Expression"},
		Trusted: trust("A-PS", "A-HOOK", "A-EXT-PURE", "A-REGEXP")})
	add(&propSpec{ID: "C17", Level: "proof", Funcs: []string{"bexpr.Filter.Execute"}, Trusted: trust("A-PS")})
	add(&propSpec{ID: "C09", Level: "proof", Funcs: evalChain,
		Trusted: trust("A-JSON", "A-REGEXP", "A-STRINGS", "A-PS", "A-HOOK", "A-SORT", "A-STACK")})
}
