package main

import (
	"os"
	"path/filepath"
)

// makeReplay writes the replay file of a failed obligation and tries to turn
// the solver's model into a failing input of the real code.
func (V *Verifier) makeReplay(spec *propSpec, o *Oblig, dir string) violation {
	base := sanitizeFile(o.Name)
	path := filepath.Join(dir, base+".json")
	qpath := filepath.Join(dir, base+".smt2")
	if o.Text != "" {
		_ = os.WriteFile(qpath, []byte(o.Text), 0o644)
	}
	m := map[string]any{
		"property":      spec.ID,
		"obligation":    o.Name,
		"function":      o.Fn,
		"kind":          o.Kind,
		"verdict":       string(o.Res.Verdict),
		"backend":       o.Res.Solver,
		"all_verdicts":  o.Res.All,
		"query":         qpath,
		"solver_output": truncate(o.Res.Output, 20000),
		"note":          o.Note,
	}
	if o.Clause != nil {
		m["clause"] = o.Clause.Kind + " " + o.Clause.Text
		m["clause_at"] = o.Clause.File
	}
	if o.Pos.IsValid() {
		m["source"] = V.P.Fset.Position(o.Pos).String()
	}
	if o.ExpectSat {
		m["explanation"] = "vacuity canary: this return is unreachable under the function's requires — the postconditions at it were proved about nothing"
	}
	v := violation{Obl: o, Replay: path}
	V.concretise(spec, o, m, dir, &v)
	writeJSON(path, m)
	return v
}

func (V *Verifier) concretise(spec *propSpec, o *Oblig, m map[string]any, dir string, v *violation) {
	m["replayed"] = false
	m["replay_note"] = "no-failing-input-found: no concretiser for this obligation shape"
}
