package main

import (
	"encoding/json"
	"fmt"
	"os"
	"os/exec"
	"path/filepath"
	"strings"
	"time"
)

type batteryFailure struct {
	Kind   string `json:"kind"`
	Expr   string `json:"expression"`
	Datum  string `json:"datum"`
	Opts   string `json:"options,omitempty"`
	Got    string `json:"got"`
	Want   string `json:"want,omitempty"`
	Detail string `json:"detail,omitempty"`
}

type batteryResult struct {
	Property string           `json:"property"`
	Cases    int              `json:"cases"`
	Failures []batteryFailure `json:"failures"`
	Cmd      string           `json:"cmd"`
	Output   string           `json:"output,omitempty"`
	Secs     float64          `json:"secs"`
	Err      string           `json:"error,omitempty"`
	Stats    map[string]int   `json:"stats,omitempty"`
	Samples  []string         `json:"samples,omitempty"`
}

// runBattery runs the replay battery of a property against the real code of
// /repo (in-package test injected with go test -overlay; nothing is written
// into /repo).
func (V *Verifier) runBattery(prop string) *batteryResult {
	if r, ok := V.batteryMemo[prop]; ok {
		return r
	}
	res := &batteryResult{Property: prop}
	V.batteryMemo[prop] = res
	ov := filepath.Join(V.Workdir, "overlay.json")
	out := filepath.Join(V.Workdir, "battery-"+prop+".json")
	repo := V.P.RepoDir
	ovm := map[string]map[string]string{"Replace": {filepath.Join(repo, "zz_bxv_replay_test.go"): "/verif/replay/zz_bxv_replay_test.go",
		filepath.Join(repo, "zz_bxv_c11_test.go"):      "/verif/replay/zz_bxv_c11_test.go",
		filepath.Join(repo, "zz_bxv_refparse_test.go"): "/verif/replay/zz_bxv_refparse_test.go"}}
	b, _ := json.Marshal(ovm)
	_ = os.WriteFile(ov, b, 0o644)
	args := []string{"test", "-tags", "verif", "-overlay", ov, "-vet=off", "-count=1", "-timeout", "1500s", "-run", "^TestBxvBattery$"}
	if prop == "C12" {
		args = append(args, "-race")
	}
	args = append(args, ".")
	cmd := exec.Command("go", args...)
	cmd.Dir = repo
	cmd.Env = append(os.Environ(), "GOFLAGS=-mod=mod", "GOPROXY=off", "GOSUMDB=off", "GOTOOLCHAIN=local", "BXV_PROP="+prop, "BXV_OUT="+out, "BXV_TIER="+V.Tier)
	res.Cmd = fmt.Sprintf("cd %s && BXV_PROP=%s BXV_OUT=<file> go %s", repo, prop, strings.Join(args, " "))
	t0 := time.Now()
	o, err := cmd.CombinedOutput()
	res.Secs = time.Since(t0).Seconds()
	res.Output = truncate(string(o), 4000)
	if jb, rerr := os.ReadFile(out); rerr == nil {
		var parsed batteryResult
		if json.Unmarshal(jb, &parsed) == nil {
			res.Cases = parsed.Cases
			res.Failures = parsed.Failures
			res.Stats = parsed.Stats
			res.Samples = parsed.Samples
		}
	} else if err != nil {
		res.Err = "battery did not run to completion: " + err.Error()
	}
	if strings.Contains(string(o), "DATA RACE") {
		res.Failures = append(res.Failures, batteryFailure{Kind: "race", Expr: "(see output)", Datum: "-", Got: "go test -race reported a data race", Detail: truncate(string(o), 3000)})
	}
	return res
}

// makeReplay writes the replay file of a failed obligation and tries to turn
// it into a failing input of the real code.
func (V *Verifier) makeReplay(spec *propSpec, o *Oblig, dir string) violation {
	base := sanitizeFile(o.Name)
	path := filepath.Join(dir, base+".json")
	qpath := filepath.Join(dir, base+".smt2")
	if o.Text != "" {
		_ = os.WriteFile(qpath, []byte(o.Text), 0o644)
	}
	m := map[string]any{
		"property":      spec.ID,
		"obligation":    o.Name,
		"function":      o.Fn,
		"kind":          o.Kind,
		"verdict":       string(o.Res.Verdict),
		"backend":       o.Res.Solver,
		"all_verdicts":  o.Res.All,
		"query":         qpath,
		"solver_output": truncate(o.Res.Output, 20000),
		"note":          o.Note,
	}
	if o.Clause != nil {
		m["clause"] = o.Clause.Kind + " " + o.Clause.Text
		m["clause_at"] = fmt.Sprintf("%s:%d", o.Clause.File, o.Clause.Line)
	}
	if o.Pos.IsValid() {
		m["source"] = V.P.Fset.Position(o.Pos).String()
	}
	if o.ExpectSat {
		m["explanation"] = "vacuity canary: this return is unreachable under the function's requires — the postconditions at it were proved about nothing"
	}
	v := violation{Obl: o, Replay: path}
	V.concretise(spec, o, m, dir, &v)
	writeJSON(path, m)
	return v
}

// concretise: run the property's battery on the real code; a failing input
// found there is the replayed counterexample.
func (V *Verifier) concretise(spec *propSpec, o *Oblig, m map[string]any, dir string, v *violation) {
	if spec.NoBattery {
		m["replayed"] = false
		m["replay_note"] = "no-failing-input-found: this property has no executable oracle to replay against (frame/structural obligation); the failed obligation and the solver/walker output above are the evidence"
		return
	}
	br := V.runBattery(spec.ID)
	m["battery"] = map[string]any{"cmd": br.Cmd, "cases": br.Cases, "secs": round2(br.Secs), "error": br.Err}
	if len(br.Failures) > 0 {
		m["replayed"] = true
		m["failing_inputs"] = br.Failures
		m["replay_note"] = "the failing inputs were found by running the real code of /repo side by side with the executable transcription of the spec (and the no-panic / err-implies-false oracles); re-run with `bin/bxv replay " + filepath.Join(dir, sanitizeFile(o.Name)+".json") + "`"
		v.Repro = true
		return
	}
	m["replayed"] = false
	m["replay_note"] = fmt.Sprintf("no-failing-input-found: the obligation failed (verdict %s) but none of the %d battery cases run against the real code disagreed with the reference", o.Res.Verdict, br.Cases)
}

// cmdReplay re-runs the battery recorded in a replay file.
func cmdReplay(args []string) int {
	if len(args) < 1 {
		fmt.Fprintln(os.Stderr, "usage: bxv replay <replay.json>")
		return 2
	}
	b, err := os.ReadFile(args[0])
	if err != nil {
		fmt.Fprintln(os.Stderr, err)
		return 2
	}
	var m map[string]any
	if err := json.Unmarshal(b, &m); err != nil {
		fmt.Fprintln(os.Stderr, err)
		return 2
	}
	fmt.Printf("obligation: %v\nverdict: %v (%v)\n", m["obligation"], m["verdict"], m["backend"])
	if c, ok := m["clause"]; ok {
		fmt.Printf("clause: %v\n", c)
	}
	prop, _ := m["property"].(string)
	if rp, _ := m["replayed"].(bool); !rp {
		fmt.Printf("no failing input was found for this obligation; solver output:\n%v\n", m["solver_output"])
		return 0
	}
	V, err := newVerifier("quick")
	if err != nil {
		fmt.Fprintln(os.Stderr, err)
		return 2
	}
	defer V.Close()
	br := V.runBattery(prop)
	fmt.Printf("battery: %d cases, %d failing\n", br.Cases, len(br.Failures))
	for _, f := range br.Failures {
		fmt.Printf("  %s: %s on %s %s -> got %s want %s %s\n", f.Kind, f.Expr, f.Datum, f.Opts, f.Got, f.Want, f.Detail)
	}
	if len(br.Failures) > 0 {
		return 1
	}
	return 0
}
