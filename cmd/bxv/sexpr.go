package main

import (
	"fmt"
	"strings"
)

// SX is a parsed s-expression: an atom or a list.
type SX struct {
	Atom string
	List []*SX
	IsL  bool
}

func (s *SX) String() string {
	if !s.IsL {
		return s.Atom
	}
	parts := make([]string, len(s.List))
	for i, c := range s.List {
		parts[i] = c.String()
	}
	return "(" + strings.Join(parts, " ") + ")"
}

func (s *SX) Head() string {
	if s.IsL && len(s.List) > 0 && !s.List[0].IsL {
		return s.List[0].Atom
	}
	return ""
}

// parseSexprs parses a sequence of s-expressions (SMT-LIB syntax: ; comments,
// |quoted symbols|, "strings").
func parseSexprs(src string) ([]*SX, error) {
	var out []*SX
	pos := 0
	for {
		skipWS(src, &pos)
		if pos >= len(src) {
			return out, nil
		}
		e, err := parseOne(src, &pos)
		if err != nil {
			return out, err
		}
		out = append(out, e)
	}
}

func skipWS(s string, p *int) {
	for *p < len(s) {
		c := s[*p]
		if c == ';' {
			for *p < len(s) && s[*p] != '\n' {
				*p++
			}
		} else if c == ' ' || c == '\t' || c == '\n' || c == '\r' {
			*p++
		} else {
			return
		}
	}
}

func parseOne(s string, p *int) (*SX, error) {
	skipWS(s, p)
	if *p >= len(s) {
		return nil, fmt.Errorf("unexpected EOF")
	}
	switch s[*p] {
	case '(':
		*p++
		l := &SX{IsL: true}
		for {
			skipWS(s, p)
			if *p >= len(s) {
				return nil, fmt.Errorf("unbalanced (")
			}
			if s[*p] == ')' {
				*p++
				return l, nil
			}
			c, err := parseOne(s, p)
			if err != nil {
				return nil, err
			}
			l.List = append(l.List, c)
		}
	case ')':
		return nil, fmt.Errorf("unexpected ) at %d", *p)
	case '"':
		st := *p
		*p++
		for *p < len(s) {
			if s[*p] == '"' {
				if *p+1 < len(s) && s[*p+1] == '"' {
					*p += 2
					continue
				}
				*p++
				break
			}
			*p++
		}
		return &SX{Atom: s[st:*p]}, nil
	case '|':
		st := *p
		*p++
		for *p < len(s) && s[*p] != '|' {
			*p++
		}
		*p++
		return &SX{Atom: s[st:*p]}, nil
	default:
		st := *p
		for *p < len(s) {
			c := s[*p]
			if c == ' ' || c == '\t' || c == '\n' || c == '\r' || c == '(' || c == ')' || c == ';' {
				break
			}
			*p++
		}
		return &SX{Atom: s[st:*p]}, nil
	}
}

// Sig is the signature of an SMT function symbol.
type Sig struct {
	Name   string
	Args   []string // sort strings
	Res    string
	Params []string // parameter names (define-fun only)
	Body   *SX      // define-fun body, if any
}

// collectSigs extracts signatures from declare-fun / define-fun /
// declare-const / declare-datatypes commands.
func collectSigs(cmds []*SX, into map[string]*Sig) {
	for _, c := range cmds {
		switch c.Head() {
		case "declare-fun":
			if len(c.List) == 4 {
				sg := &Sig{Name: c.List[1].Atom, Res: c.List[3].String()}
				for _, a := range c.List[2].List {
					sg.Args = append(sg.Args, a.String())
				}
				into[sg.Name] = sg
			}
		case "declare-const":
			if len(c.List) == 3 {
				into[c.List[1].Atom] = &Sig{Name: c.List[1].Atom, Res: c.List[2].String()}
			}
		case "define-fun", "define-fun-rec":
			if len(c.List) == 5 {
				sg := &Sig{Name: c.List[1].Atom, Res: c.List[3].String(), Body: c.List[4]}
				for _, a := range c.List[2].List {
					sg.Params = append(sg.Params, a.List[0].Atom)
					sg.Args = append(sg.Args, a.List[1].String())
				}
				into[sg.Name] = sg
			}
		case "declare-datatypes":
			// (declare-datatypes ((N 0) ...) (((ctor (sel S) ...) ...) ...))
			if len(c.List) == 3 {
				names := c.List[1].List
				defs := c.List[2].List
				for i, n := range names {
					if i >= len(defs) {
						break
					}
					dt := n.List[0].Atom
					for _, ctor := range defs[i].List {
						if !ctor.IsL {
							into[ctor.Atom] = &Sig{Name: ctor.Atom, Res: dt}
							continue
						}
						cs := &Sig{Name: ctor.List[0].Atom, Res: dt}
						for _, sel := range ctor.List[1:] {
							cs.Args = append(cs.Args, sel.List[1].String())
							into[sel.List[0].Atom] = &Sig{Name: sel.List[0].Atom, Args: []string{dt}, Res: sel.List[1].String()}
						}
						into[cs.Name] = cs
					}
				}
			}
		}
	}
}

// findApps collects all applications (f a1 .. an) of symbols in want inside e.
func findApps(e *SX, want map[string]bool, out map[string]*SX) {
	if !e.IsL {
		return
	}
	if h := e.Head(); h != "" && want[h] && len(e.List) > 1 {
		out[e.String()] = e
	}
	// do not descend into binders' variable lists
	switch e.Head() {
	case "forall", "exists":
		if len(e.List) == 3 {
			// skip: bound variables make the application non-ground
			return
		}
	case "let":
		// let-bound bodies: be conservative and skip
		return
	}
	for _, c := range e.List {
		findApps(c, want, out)
	}
}

func sxSubst(e *SX, m map[string]*SX) *SX {
	if !e.IsL {
		if r, ok := m[e.Atom]; ok {
			return r
		}
		return e
	}
	n := &SX{IsL: true, List: make([]*SX, len(e.List))}
	for i, c := range e.List {
		n.List[i] = sxSubst(c, m)
	}
	return n
}
