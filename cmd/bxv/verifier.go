package main

import (
	"regexp"
	"fmt"
	"strconv"
	"os"
	"path/filepath"
	"sort"
	"strings"
	"sync"
	"time"

	"golang.org/x/tools/go/ssa"
)

type Verifier struct {
	P           *Program
	U           *Universe
	CS          *ContractSet
	Tier        string
	Timeout     time.Duration
	Workdir     string
	usedAsValue map[string]bool
	callGraph   map[string]map[string]bool
	missing     map[string]int
	encs        map[string]*fnEnc
	encErrs     map[string]error
	unfolds     map[string]*Sig // F -> F.unfold signature
	declText    string
	macroMemo   map[string]bool
	batteryMemo map[string]*batteryResult
	effAn       *effectAnalysis
	infWrites   map[*ssa.Function]map[string]bool
	qaxioms     []*qaxiom
	wantModel   bool
	seed        int
}

func newVerifier(tier string) (*Verifier, error) {
	P, err := loadProgram(repoDir())
	if err != nil {
		return nil, err
	}
	V := &Verifier{P: P, Tier: tier, usedAsValue: map[string]bool{}, callGraph: map[string]map[string]bool{},
		missing: map[string]int{}, encs: map[string]*fnEnc{}, encErrs: map[string]error{}, unfolds: map[string]*Sig{}, macroMemo: map[string]bool{}, batteryMemo: map[string]*batteryResult{}}
	V.Timeout = 20 * time.Second
	if tier == "thorough" {
		V.Timeout = 120 * time.Second
	}
	V.U = newUniverse(P)
	pre, _ := filepath.Glob(specDir() + "/*.smt2")
	sort.Strings(pre)
	if err := V.U.loadPrelude(pre, func(f string) (string, error) { b, err := os.ReadFile(f); return string(b), err }); err != nil {
		return nil, err
	}
	collectSigs(V.U.prelude, V.U.Sigs)
	// bundles: (echo "bundle:Name key key ...")
	for _, c := range V.U.prelude {
		if c.Head() == "echo" && len(c.List) == 2 && strings.HasPrefix(strings.Trim(c.List[1].Atom, "\""), "bundle:") {
			f := strings.Fields(strings.TrimPrefix(strings.Trim(c.List[1].Atom, "\""), "bundle:"))
			V.U.bundles[f[0]] = f[1:]
		}
	}
	for _, c := range V.U.prelude {
		if c.Head() == "echo" && len(c.List) == 2 && strings.HasPrefix(strings.Trim(c.List[1].Atom, "\""), "strlit:") {
			body := strings.TrimPrefix(strings.Trim(c.List[1].Atom, "\""), "strlit:")
			i := strings.Index(body, " ")
			sym, lit := body[:i], body[i+1:]
			if u, uerr := strconv.Unquote("\"" + lit + "\""); uerr == nil {
				lit = u
			}
			V.U.strlits[lit] = sym
			V.U.strOrder = append(V.U.strOrder, lit)
			V.U.Sigs[sym] = &Sig{Name: sym, Res: "Str"}
		}
	}
	for _, c := range V.U.prelude {
		if c.Head() == "echo" && len(c.List) == 2 && strings.HasPrefix(strings.Trim(c.List[1].Atom, "\""), "ghostheap:") {
			body := strings.TrimPrefix(strings.Trim(c.List[1].Atom, "\""), "ghostheap:")
			i := strings.Index(body, " ")
			key, elem := body[:i], strings.TrimSpace(body[i+1:])
			V.U.heaps[key] = &heapInfo{Key: key, Sym: "H." + key, Elem: elem}
			V.U.heapO = append(V.U.heapO, key)
		}
	}
	for name, sg := range V.U.Sigs {
		if strings.HasSuffix(name, ".unfold") {
			V.unfolds[strings.TrimSuffix(name, ".unfold")] = sg
		}
	}
	V.CS, err = loadContracts(contractFiles(P.RepoDir))
	if err != nil {
		return nil, err
	}
	// which functions are used as values; call graph
	for k, f := range P.Funcs {
		V.callGraph[k] = map[string]bool{}
		for _, b := range f.Blocks {
			for _, in := range b.Instrs {
				if ci, ok := in.(ssa.CallInstruction); ok {
					if ck := calleeKey(ci.Common()); ck != "" {
						V.callGraph[k][ck] = true
					}
				}
				if _, isDbg := in.(*ssa.DebugRef); isDbg {
					continue // a debug reference to the callee's name is not a use as a value
				}
				var ops []*ssa.Value
				for _, op := range in.Operands(ops) {
					if op == nil || *op == nil {
						continue
					}
					switch v := (*op).(type) {
					case *ssa.Function:
						if ci, ok := in.(ssa.CallInstruction); ok && ci.Common().Value == v {
							continue
						}
						V.usedAsValue[funcKey(v)] = true
					case *ssa.MakeClosure:
						V.usedAsValue[funcKey(v.Fn.(*ssa.Function))] = true
					}
				}
				if mc, ok := in.(*ssa.MakeClosure); ok {
					V.usedAsValue[funcKey(mc.Fn.(*ssa.Function))] = true
				}
			}
		}
	}
	for _, k := range sortedFuncKeys(P.Funcs) {
		V.U.fnCtorOf(P.Funcs[k])
	}
	V.U.preRegister()
	wd, err := os.MkdirTemp("", "bxv-")
	if err != nil {
		return nil, err
	}
	V.Workdir = wd
	return V, nil
}

func (V *Verifier) Close() {
	if V.Workdir != "" && os.Getenv("BXV_KEEP") == "" {
		os.RemoveAll(V.Workdir)
	}
}

// encodeAll encodes the given functions (keys), collecting obligations.
func (V *Verifier) encodeFuncs(keys []string) []*Oblig {
	var obls []*Oblig
	for _, k := range keys {
		f := V.P.Funcs[k]
		if f == nil {
			V.encErrs[k] = fmt.Errorf("function %s not found in /repo", k)
			continue
		}
		if c := V.CS.ByKey[k]; c != nil && c.Trusted {
			continue
		}
		e, err := V.encode(f)
		if err != nil {
			V.encErrs[k] = err
			continue
		}
		V.encs[k] = e
		obls = append(obls, e.obls...)
		if c := V.CS.ByKey[k]; c != nil && c.HasAssigns {
			for _, ff := range V.frameCheck(f) {
				o := &Oblig{Name: fmt.Sprintf("%s#frame:%s", k, ff.name), Fn: k, Kind: "frame", Note: ff.note, Pos: ff.pos.Pos(), Decided: true}
				if ff.ok {
					o.Res = SolveResult{Verdict: Unsat, Solver: "bxv-frame-walk"}
				} else {
					o.Res = SolveResult{Verdict: Sat, Solver: "bxv-frame-walk", Output: ff.note + " at " + ff.pos.String()}
				}
				obls = append(obls, o)
			}
		}
	}
	return obls
}

// bundle datatypes need the heaps' element sorts; emitted with the decls.
func (V *Verifier) bundleDecls() string {
	var b strings.Builder
	for _, name := range sortedKeysSS(V.U.bundles) {
		fields := V.U.bundles[name]
		fmt.Fprintf(&b, "(declare-datatypes ((%s 0)) (((mk.%s", name, name)
		for _, key := range fields {
			h := V.U.heapByKey(key)
			if h == nil {
				panic("bundle " + name + ": unknown heap " + key)
			}
			fmt.Fprintf(&b, " (%s!%s (Array Int %s))", name, key, h.Elem)
		}
		b.WriteString("))))\n")
	}
	return b.String()
}

func sortedKeysSS(m map[string][]string) []string {
	ks := make([]string, 0, len(m))
	for k := range m {
		ks = append(ks, k)
	}
	sort.Strings(ks)
	return ks
}

// queryText builds the closed SMT query of an obligation.
func (V *Verifier) queryText(o *Oblig) string {
	var b strings.Builder
	b.WriteString(V.declText)
	if o.enc != nil {
		for _, d := range o.enc.decls {
			b.WriteString(d)
			b.WriteString("\n")
		}
		var body strings.Builder
		for _, a := range o.enc.asserts[:o.CtxLen] {
			fmt.Fprintf(&body, "(assert %s)\n", a)
		}
		fmt.Fprintf(&body, "(assert %s)\n", o.Guard)
		if o.ExpectSat {
			fmt.Fprintf(&body, "(assert %s)\n", o.Goal)
		} else {
			fmt.Fprintf(&body, "(assert (not %s))\n", o.Goal)
		}
		inst := V.instantiateUnfolds(body.String(), 1)
		inst += embDistinctFacts(body.String())
		if strings.Contains(body.String(), "(Render ") {
			// rendering obligations compare concatenations of literal chunks:
			// decompose every literal into its characters so that the
			// comparison does not depend on how the text is chunked
			inst += V.U.strDecompFacts()
		}
		b.WriteString(V.relevantAxioms(inst + body.String()))
		b.WriteString(inst)
		b.WriteString(body.String())
	} else if o.Kind == "lemma" || o.lemmaBody != "" {
		for _, d := range o.lemmaDecls {
			b.WriteString(d)
			b.WriteString("\n")
		}
		inst := V.instantiateUnfolds(o.lemmaBody, o.lemmaFuel, o.lemmaOpaque...)
		b.WriteString(V.relevantAxioms(inst + o.lemmaBody))
		b.WriteString(inst)
		b.WriteString(o.lemmaBody)
	} else {
		b.WriteString(o.Text)
	}
	b.WriteString("(check-sat)\n")
	if V.wantModel {
		b.WriteString("(get-model)\n")
	}
	return b.String()
}

// instantiateUnfolds adds (F.unfold args) for every ground application
// (F args) occurring in text — "fuel" levels deep.
func (V *Verifier) instantiateUnfolds(text string, fuel int, opaque ...string) string {
	want := map[string]bool{}
	for f := range V.unfolds {
		want[f] = true
	}
	for _, k := range V.U.tagOrder {
		want["box."+strings.TrimPrefix(tagSym(k), "tag.")] = true
	}
	seen := map[string]bool{}
	var out strings.Builder
	cur := text
	for lvl := 0; lvl < fuel; lvl++ {
		cmds, err := parseSexprs(cur)
		if err != nil {
			break
		}
		apps := map[string]*SX{}
		for _, c := range cmds {
			V.findAppsM(c, want, apps, 0)
		}
		var keys []string
		for k := range apps {
			if !seen[k] {
				keys = append(keys, k)
			}
		}
		sort.Strings(keys)
		var next strings.Builder
		for _, k := range keys {
			seen[k] = true
			app := apps[k]
			if h := app.Head(); strings.HasPrefix(h, "box.") {
				// ground instance of the boxing axioms
				base := strings.TrimPrefix(h, "box.")
				fmt.Fprintf(&next, "(assert (and (= (dyn %s) tag.%s) (= (unbox.%s %s) %s) (inv.Any %s)))\n", app.String(), base, base, app.String(), app.List[1].String(), app.String())
				continue
			}
			uf := V.unfolds[app.Head()]
			if uf == nil || len(uf.Args) != len(app.List)-1 {
				continue
			}
			skip := false
			for _, op := range opaque {
				if !app.List[1].IsL && app.List[1].Atom == op {
					skip = true
				}
			}
			if skip {
				continue
			}
			// expand the body of F.unfold with the actual arguments so that
			// nested applications become visible to the next fuel level
			m := map[string]*SX{}
			for i, p := range uf.Params {
				m[p] = app.List[i+1]
			}
			inst := sxSubst(uf.Body, m).String()
			fmt.Fprintf(&next, "(assert %s)\n", inst)
		}
		out.WriteString(next.String())
		cur = next.String()
		if len(keys) == 0 {
			break
		}
	}
	return out.String()
}

func (V *Verifier) prepare() {
	bd := V.bundleDecls()
	full := V.U.emitDeclsWith(bd)
	cmds, err := parseSexprs(full)
	if err != nil {
		panic("internal: generated declarations do not parse: " + err.Error())
	}
	var core strings.Builder
	V.qaxioms = nil
	for _, c := range cmds {
		if c.Head() == "assert" && len(c.List) == 2 && c.List[1].Head() == "forall" {
			V.qaxioms = append(V.qaxioms, newQAxiom(c))
			continue
		}
		core.WriteString(c.String())
		core.WriteString("\n")
	}
	V.declText = core.String()
	// precompute (the discharge goroutines only read it)
	collectSigs(cmds, V.U.Sigs)
	for name := range V.U.Sigs {
		V.macroHasUnfoldable(name, map[string]bool{})
	}
}

// discharge runs all obligations in parallel.
func (V *Verifier) discharge(obls []*Oblig) {
	tp := time.Now()
	V.prepare()
	if os.Getenv("BXV_TIMING") != "" {
		fmt.Fprintf(os.Stderr, "prepare: %.1fs\n", time.Since(tp).Seconds())
	}
	sem := make(chan struct{}, 14)
	var wg sync.WaitGroup
	for _, o := range obls {
		o := o
		if o.Decided {
			continue
		}
		wg.Add(1)
		sem <- struct{}{}
		go func() {
			defer wg.Done()
			defer func() { <-sem }()
			tq := time.Now()
			text := V.queryText(o)
			o.GenSecs = time.Since(tq).Seconds()
			if os.Getenv("BXV_TRACE") != "" {
				defer func() {
					fmt.Fprintf(os.Stderr, "%6.2f-%6.2f %s %s\n", tq.Sub(tp).Seconds(), time.Since(tp).Seconds(), o.Res.Verdict, o.Name)
				}()
			}
			if o.ExpectSat {
				// vacuity canary: only "unsat" matters; one solver, short budget
				v, out, secs := runSolverText(solvers[0], text, V.Workdir, o.Name, 3*time.Second)
				o.Res = SolveResult{Verdict: v, Solver: solvers[0].name, Secs: secs, Output: out}
			} else {
				o.Res = solve(text, V.Workdir, o.Name, V.Timeout, V.Tier == "thorough", true)
			}
			if o.Res.Verdict != Unsat {
				o.Text = text
			}
		}()
	}
	wg.Wait()
}

// qaxiom is a quantified axiom; it is included in a query only when the
// query mentions all symbols of one of its patterns (so that queries about
// code that does not touch sequences etc. stay quantifier-free and the
// solvers can return models).
type qaxiom struct {
	text string
	pats [][]string
	syms []string
}

func newQAxiom(c *SX) *qaxiom {
	q := &qaxiom{text: c.String()}
	body := c.List[1].List[2]
	bound := map[string]bool{}
	for _, bv := range c.List[1].List[1].List {
		bound[bv.List[0].Atom] = true
	}
	if body.Head() == "!" {
		for i := 2; i+1 < len(body.List); i += 2 {
			if body.List[i].Atom == ":pattern" {
				// a multi-pattern: all its terms must be matched
				var need []string
				for _, p := range body.List[i+1].List {
					for _, s := range allSyms(p) {
						if !bound[s] && !isNumeral(s) {
							need = append(need, s)
						}
					}
				}
				q.pats = append(q.pats, need)
			}
		}
	}
	if len(q.pats) == 0 {
		q.pats = [][]string{{}}
	}
	q.syms = allSyms(c)
	return q
}

func isNumeral(s string) bool {
	for _, r := range s {
		if r < '0' || r > '9' {
			return false
		}
	}
	return s != ""
}

func allSyms(c *SX) []string {
	var out []string
	var walk func(x *SX)
	walk = func(x *SX) {
		if !x.IsL {
			out = append(out, x.Atom)
			return
		}
		for _, y := range x.List {
			walk(y)
		}
	}
	walk(c)
	return out
}

func (V *Verifier) relevantAxioms(body string) string {
	syms := map[string]bool{}
	for _, f := range strings.FieldsFunc(body, func(r rune) bool { return r == '(' || r == ')' || r == ' ' || r == '\n' || r == '\t' }) {
		syms[f] = true
	}
	used := make([]bool, len(V.qaxioms))
	var out strings.Builder
	for changed := true; changed; {
		changed = false
		for i, q := range V.qaxioms {
			if used[i] {
				continue
			}
			hit := false
			for _, p := range q.pats {
				all := true
				for _, s := range p {
					if s != "" && !syms[s] {
						all = false
					}
				}
				if all {
					hit = true
				}
			}
			if hit {
				used[i] = true
				changed = true
				out.WriteString(q.text)
				out.WriteString("\n")
				for _, s := range q.syms {
					syms[s] = true
				}
			}
		}
	}
	return out.String()
}

// macroHasUnfoldable: does the define-fun (transitively) mention a symbol
// that has an unfolding?
func (V *Verifier) macroHasUnfoldable(name string, seen map[string]bool) bool {
	if v, ok := V.macroMemo[name]; ok {
		return v
	}
	if seen[name] {
		return false
	}
	seen[name] = true
	sg := V.U.Sigs[name]
	res := false
	if sg != nil && sg.Body != nil && !strings.HasSuffix(name, ".unfold") {
		for _, s := range allSyms(sg.Body) {
			if _, ok := V.unfolds[s]; ok || strings.HasPrefix(s, "box.") {
				res = true
				break
			}
			if s2 := V.U.Sigs[s]; s2 != nil && s2.Body != nil && s != name && V.macroHasUnfoldable(s, seen) {
				res = true
				break
			}
		}
	}
	V.macroMemo[name] = res
	return res
}

// findAppsM is findApps that looks through define-fun macros.
func (V *Verifier) findAppsM(e *SX, want map[string]bool, out map[string]*SX, depth int) {
	if !e.IsL || depth > 6 {
		return
	}
	h := e.Head()
	if h != "" && want[h] && len(e.List) > 1 {
		out[e.String()] = e
	}
	switch h {
	case "forall", "exists", "let":
		return
	}
	if h != "" && len(e.List) > 1 {
		if sg := V.U.Sigs[h]; sg != nil && sg.Body != nil && len(sg.Params) == len(e.List)-1 && V.macroHasUnfoldable(h, map[string]bool{}) {
			m := map[string]*SX{}
			for i, p := range sg.Params {
				m[p] = e.List[i+1]
			}
			V.findAppsM(sxSubst(sg.Body, m), want, out, depth+1)
		}
	}
	for _, c := range e.List {
		V.findAppsM(c, want, out, depth)
	}
}

// embDistinctFacts: ground instances of "structs embedded by value are
// objects of their own": for the embedded-struct references (emb.T.f x) that
// occur in the query - two references through different fields are different
// objects, (emb.T.f x) = (emb.T.f y) only if x = y, and none of them is an
// object allocated by this activation (ref.*). Only pairs whose field heaps
// can coincide matter, but the instances are cheap, so all pairs are given.
var allocRefRe = regexp.MustCompile(`\bref\.[\w.$<>&*]+![0-9]+`)

func embDistinctFacts(text string) string {
	type app struct{ fn, arg, whole string }
	seen := map[string]bool{}
	var apps []app
	for i := 0; i+5 < len(text); i++ {
		if !strings.HasPrefix(text[i:], "(emb.") {
			continue
		}
		depth, j := 0, i
		for ; j < len(text); j++ {
			if text[j] == '(' {
				depth++
			} else if text[j] == ')' {
				depth--
				if depth == 0 {
					break
				}
			}
		}
		if j >= len(text) {
			break
		}
		whole := text[i : j+1]
		if seen[whole] {
			continue
		}
		seen[whole] = true
		sp := strings.IndexByte(whole, ' ')
		if sp < 0 {
			continue
		}
		apps = append(apps, app{fn: whole[1:sp], arg: strings.TrimSpace(whole[sp+1 : len(whole)-1]), whole: whole})
	}
	if len(apps) == 0 || len(apps) > 60 {
		return ""
	}
	var b strings.Builder
	for i := 0; i < len(apps); i++ {
		for j := i + 1; j < len(apps); j++ {
			a, c := apps[i], apps[j]
			if a.fn != c.fn {
				fmt.Fprintf(&b, "(assert (=> (not (= %s 0)) (not (= %s %s))))\n", a.whole, a.whole, c.whole)
			} else if a.arg != c.arg {
				fmt.Fprintf(&b, "(assert (=> (= %s %s) (= %s %s)))\n", a.whole, c.whole, a.arg, c.arg)
			}
		}
	}
	refs := map[string]bool{}
	for _, r := range allocRefRe.FindAllString(text, -1) {
		refs[r] = true
	}
	for _, r := range sortedBoolKeys(refs) {
		for _, a := range apps {
			fmt.Fprintf(&b, "(assert (not (= %s %s)))\n", r, a.whole)
		}
	}
	return b.String()
}
