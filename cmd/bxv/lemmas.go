package main

import (
	"fmt"
	"strings"
)

// lemmaObligations builds the obligations of the spec-level lemmas tagged
// with the property.
func (V *Verifier) lemmaObligations(spec *propSpec) []*Oblig {
	var out []*Oblig
	for _, l := range V.CS.Lemmas {
		has := false
		for _, p := range l.Props {
			if p == spec.ID {
				has = true
			}
		}
		if !has {
			continue
		}
		o, err := V.lemmaOblig(l)
		if err != nil {
			V.encErrs["lemma:"+l.Name] = err
			continue
		}
		out = append(out, o)
	}
	return out
}

func (V *Verifier) lemmaOblig(l *Lemma) (*Oblig, error) {
	env := &cenv{U: V.U, vars: map[string]Term{}, pkg: V.P.Bexpr.Pkg, heap: heapState{}, old: heapState{}}
	var decls []string
	heapDecl := map[string]bool{}
	env.heapSym = func(key string) string {
		h := V.U.heaps[key]
		if h == nil {
			h = V.U.heapByKey(key)
		}
		sym := h.Sym + "@lemma"
		if !heapDecl[sym] {
			heapDecl[sym] = true
			decls = append(decls, fmt.Sprintf("(declare-const %s (Array Int %s))", sym, h.Elem))
		}
		return sym
	}
	var facts []string
	V.U.emit = func(s string) { facts = append(facts, s) }
	defer func() { V.U.emit = nil }()
	for _, v := range l.Vars {
		name := "lv." + v[0]
		decls = append(decls, fmt.Sprintf("(declare-const %s %s)", name, v[1]))
		t := Term{S: name, Sort: v[1]}
		env.vars[v[0]] = t
		facts = append(facts, V.U.typeFactsOf(t, 1)...)
	}
	var hyps, concl []string
	for _, h := range l.Hyps {
		t, err := env.tr(h.Expr, "Bool")
		if err != nil {
			return nil, fmt.Errorf("%s:%d: %v", h.File, h.Line, err)
		}
		hyps = append(hyps, t.S)
	}
	for _, c := range l.Concl {
		t, err := env.tr(c.Expr, "Bool")
		if err != nil {
			return nil, fmt.Errorf("%s:%d: %v", c.File, c.Line, err)
		}
		concl = append(concl, t.S)
	}
	var body strings.Builder
	for _, f := range facts {
		fmt.Fprintf(&body, "(assert %s)\n", f)
	}
	for _, h := range hyps {
		fmt.Fprintf(&body, "(assert %s)\n", h)
	}
	goal := "(and " + strings.Join(concl, " ") + ")"
	if len(concl) == 1 {
		goal = concl[0]
	}
	fmt.Fprintf(&body, "(assert (not %s))\n", goal)
	o := &Oblig{Name: "lemma:" + l.Name, Fn: "lemma", Kind: "lemma", Props: l.Props, Goal: goal, Guard: "true"}
	o.lemmaDecls = decls
	o.lemmaBody = body.String()
	o.lemmaFuel = l.Fuel
	for _, n := range l.Opaque {
		o.lemmaOpaque = append(o.lemmaOpaque, "lv."+n)
	}
	return o, nil
}
