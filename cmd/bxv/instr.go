package main

import (
	"fmt"
	"go/token"
	"go/types"
	"strings"

	"golang.org/x/tools/go/ssa"
)

func isStructT(U *Universe, t types.Type) bool {
	_, ok := types.Unalias(t).Underlying().(*types.Struct)
	return ok && U.sortOf(t) != "RV"
}

func (e *fnEnc) instr(in ssa.Instruction) {
	U := e.U
	switch in := in.(type) {
	case *ssa.DebugRef:
	case *ssa.Phi:
		// handled at block entry
	case *ssa.Alloc:
		pt := in.Type().Underlying().(*types.Pointer).Elem()
		if _, ok := pt.Underlying().(*types.Array); ok {
			e.localArr[in] = map[int]Term{}
			e.val[in] = []Term{{fmt.Sprintf("localarr.%s", in.Name()), "Int", in.Type()}}
			return
		}
		ref := e.fresh("ref."+in.Name(), "Int")
		e.assert(fmt.Sprintf("(> %s 0)", ref))
		for _, o := range e.allocs {
			e.assert(fmt.Sprintf("(not (= %s %s))", ref, o))
		}
		ps := e.fn.Params
		if e.rootFn != nil && e.rootFn != e.fn {
			ps = append(append([]*ssa.Parameter(nil), ps...), e.rootFn.Params...)
		}
		for _, p := range ps {
			if _, isPtr := p.Type().Underlying().(*types.Pointer); isPtr {
				e.assert(fmt.Sprintf("(not (= %s %s))", ref, e.val[p][0].S))
			}
		}
		e.allocs = append(e.allocs, ref)
		e.allocs = append(e.allocs, e.embRefsOf(ref, pt)...)
		e.val[in] = []Term{{ref, "Int", in.Type()}}
		priv := privID(in)
		if isStructT(U, pt) {
			d := &addrDesc{kind: aStructRef, ref: ref, T: pt, priv: priv}
			e.addr[in] = d
			e.storeDesc(d, Term{U.zero(U.sortOf(pt)), U.sortOf(pt), pt})
		} else {
			d := &addrDesc{kind: aDeref, ref: ref, T: pt, priv: priv}
			e.inPriv(d, func() { d.heap = U.derefHeap(pt) })
			e.addr[in] = d
			e.storeDesc(d, Term{U.zero(U.sortOf(pt)), U.sortOf(pt), pt})
		}
	case *ssa.FieldAddr:
		pt := in.X.Type().Underlying().(*types.Pointer).Elem()
		st := pt.Underlying().(*types.Struct)
		f := st.Field(in.Field)
		base := e.get(in.X)
		e.safe("nilptr", fmt.Sprintf("(not (= %s 0))", base.S), in.Pos())
		priv := ""
		if bd := e.addr[in.X]; bd != nil {
			priv = bd.priv
		}
		if isStructT(U, f.Type()) {
			ref := U.embRef(base.S, pt, f)
			e.val[in] = []Term{{ref, "Int", in.Type()}}
			e.addr[in] = &addrDesc{kind: aStructRef, ref: ref, T: f.Type(), priv: priv}
		} else {
			d := &addrDesc{kind: aHeapField, ref: base.S, T: f.Type(), priv: priv}
			e.inPriv(d, func() { d.heap = U.heapOfField(pt, f) })
			e.addr[in] = d
			e.val[in] = []Term{{fmt.Sprintf("(fieldaddr.%s %s)", f.Name(), base.S), "?addr", in.Type()}}
		}
	case *ssa.IndexAddr:
		switch xt := in.X.Type().Underlying().(type) {
		case *types.Pointer: // pointer to array
			if al, ok := in.X.(*ssa.Alloc); ok && e.localArr[al] != nil {
				c, ok := in.Index.(*ssa.Const)
				if !ok {
					e.unsupported(in, "non-constant index into local array")
					return
				}
				e.addr[in] = &addrDesc{kind: aLocalArr, arr: al, idx: int(c.Int64()), T: xt.Elem().Underlying().(*types.Array).Elem()}
				e.val[in] = []Term{{"localaddr", "?addr", in.Type()}}
				return
			}
			e.unsupported(in, "index into non-local array pointer")
		case *types.Slice:
			s := e.get(in.X)
			i := e.get(in.Index)
			e.safe("index", fmt.Sprintf("(and (<= 0 %s) (< %s (%s.len %s)))", i.S, i.S, s.Sort, s.S), in.Pos())
			e.addr[in] = &addrDesc{kind: aSliceElem, slice: s, idxT: i.S, T: xt.Elem()}
			e.val[in] = []Term{{"sliceaddr", "?addr", in.Type()}}
		default:
			e.unsupported(in, "IndexAddr base")
		}
	case *ssa.UnOp:
		switch in.Op {
		case token.MUL:
			e.load(in)
		case token.NOT:
			e.define(in, Term{S: "(not " + e.get(in.X).S + ")", Sort: "Bool"})
		case token.SUB:
			x := e.get(in.X)
			if x.Sort == "Int" {
				e.define(in, Term{S: "(- " + x.S + ")", Sort: "Int"})
			} else {
				e.define(in, Term{S: "(fp.neg " + x.S + ")", Sort: x.Sort})
			}
		default:
			e.unsupported(in, "unary "+in.Op.String())
		}
	case *ssa.Store:
		v := e.get(in.Val)
		e.lastStoreVal = in.Val
		d := e.descOf(in.Addr)
		if d == nil {
			e.unsupported(in, "store through unknown address")
			return
		}
		e.storeDesc(d, v)
	case *ssa.BinOp:
		e.binop(in)
	case *ssa.ChangeInterface:
		x := e.get(in.X)
		if x.Sort == "Type" && e.U.sortOf(in.Type()) == "Any" {
			e.define(in, Term{S: fmt.Sprintf("(anyOfType %s)", x.S), Sort: "Any"})
			r := e.get(in)
			e.assert(fmt.Sprintf("(and (inv.Any %s) (= (= %s nilAny) (= %s ty.nil)))", r.S, r.S, x.S))
			return
		}
		if x.Sort != e.U.sortOf(in.Type()) {
			e.unsupported(in, "interface change across sorts")
			return
		}
		e.val[in] = []Term{{x.S, x.Sort, in.Type()}}
	case *ssa.ChangeType:
		x := e.get(in.X)
		if x.Sort != U.sortOf(in.Type()) {
			e.unsupported(in, "ChangeType across sorts")
			return
		}
		e.val[in] = []Term{{x.S, x.Sort, in.Type()}}
	case *ssa.Convert:
		e.convert(in)
	case *ssa.MakeInterface:
		x := e.get(in.X)
		if U.sortOf(in.Type()) == "Type" {
			e.unsupported(in, "make reflect.Type")
			return
		}
		t := in.X.Type()
		e.define(in, Term{S: U.boxTerm(t, x.S), Sort: "Any"})
	case *ssa.Extract:
		ts := e.getN(in.Tuple)
		if in.Index >= len(ts) {
			e.fail("extract %d of %d-tuple", in.Index, len(ts))
		}
		t := ts[in.Index]
		t.T = in.Type()
		e.val[in] = []Term{t}
	case *ssa.Field:
		x := e.get(in.X)
		si := U.structs[x.Sort]
		if si == nil {
			e.unsupported(in, "Field of non-struct sort "+x.Sort)
			return
		}
		if parts, ok := e.structParts[x.S]; ok && in.Field < len(parts) {
			e.define(in, Term{S: parts[in.Field], Sort: si.FSorts[in.Field]})
			return
		}
		e.define(in, Term{S: fmt.Sprintf("(%s %s)", si.sel(in.Field), x.S), Sort: si.FSorts[in.Field]})
	case *ssa.Index:
		x := e.get(in.X)
		i := e.get(in.Index)
		switch {
		case x.Sort == "Str":
			e.safe("index", fmt.Sprintf("(and (<= 0 %s) (< %s (s.len %s)))", i.S, i.S, x.S), in.Pos())
			e.define(in, Term{S: fmt.Sprintf("(s.at %s %s)", x.S, i.S), Sort: "Int"})
		case strings.HasPrefix(x.Sort, "Sl."):
			e.safe("index", fmt.Sprintf("(and (<= 0 %s) (< %s (%s.len %s)))", i.S, i.S, x.Sort, x.S), in.Pos())
			e.define(in, Term{S: fmt.Sprintf("(%s.at %s %s)", x.Sort, x.S, i.S), Sort: U.slices[x.Sort]})
		default:
			e.unsupported(in, "Index")
		}
	case *ssa.Lookup:
		x := e.get(in.X)
		if x.Sort == "Str" {
			i := e.get(in.Index)
			e.safe("index", fmt.Sprintf("(and (<= 0 %s) (< %s (s.len %s)))", i.S, i.S, x.S), in.Pos())
			e.define(in, Term{S: fmt.Sprintf("(s.at %s %s)", x.S, i.S), Sort: "Int"})
			return
		}
		e.val[in] = e.havocValue(in, "maplookup")
		e.note("map lookup abstracted (result havocked)")
	case *ssa.MakeClosure:
		fn := in.Fn.(*ssa.Function)
		c := U.fnCtorOf(fn)
		parts := []string{c.Sym}
		for i, b := range in.Bindings {
			if c.ByVal[i] {
				d := e.descOf(b)
				parts = append(parts, e.loadDesc(d, e.curHeap).S)
				continue
			}
			parts = append(parts, e.get(b).S)
		}
		s := c.Sym
		if len(parts) > 1 {
			s = "(" + strings.Join(parts, " ") + ")"
		}
		e.define(in, Term{S: s, Sort: "Fn"})
	case *ssa.MakeMap:
		e.val[in] = e.havocValue(in, "makemap")
	case *ssa.MakeSlice:
		s := U.sortOf(in.Type())
		if c, ok := in.Len.(*ssa.Const); ok && c.Int64() == 0 {
			e.val[in] = []Term{{s + ".empty", s, in.Type()}}
			return
		}
		l := e.get(in.Len)
		e.safe("makeslice", fmt.Sprintf("(>= %s 0)", l.S), in.Pos())
		t := e.havocValue(in, "makeslice")
		e.assert(fmt.Sprintf("(= (%s.len %s) %s)", s, t[0].S, l.S))
		e.val[in] = t
	case *ssa.Slice:
		e.sliceOp(in)
	case *ssa.TypeAssert:
		e.typeAssert(in)
	case *ssa.If, *ssa.Jump:
	case *ssa.Return:
		e.ret(in)
	case *ssa.Panic:
		if e.con == nil || !e.con.MayPanic {
			e.oblig("safe", "explicit-panic", nil, e.curReach, "false", in.Pos())
		}
		if e.con != nil && len(e.con.PanicsOnlyIf) > 0 {
			env := e.baseEnv()
			env.vars = e.params
			env.heap = e.curHeap
			env.old = heapState{}
			for _, c := range e.con.PanicsOnlyIf {
				t, err := env.tr(c.Expr, "Bool")
				if err != nil {
					e.fail("%s:%d: panics_only_if: %v", c.File, c.Line, err)
				}
				o := e.oblig("post", "panics-only-if:"+clauseName(c), c.Props, e.curReach, t.S, in.Pos())
				o.Clause = c
			}
		}
		nr := e.fresh("reach", "Bool")
		e.assert(fmt.Sprintf("(= %s false)", nr))
		e.curReach = nr
	case *ssa.Call:
		res := e.call(in, in.Common())
		e.val[in] = res
	case *ssa.Defer:
		e.deferred = append(e.deferred, in)
		e.deferInfos = append(e.deferInfos, deferInfo{instr: in, guard: e.curReach, heap: e.curHeap.clone()})
	case *ssa.RunDefers:
		e.runDefers(in)
	case *ssa.Range:
		e.val[in] = []Term{{"rangeiter", "?iter", in.Type()}}
		e.note("range over map/string abstracted")
	case *ssa.Next:
		e.val[in] = e.havocValue(in, "next")
	case *ssa.MapUpdate:
		e.note("map update abstracted (maps are opaque)")
	case *ssa.Go, *ssa.Send, *ssa.Select:
		e.unsupported(in, "concurrency construct")
	default:
		e.unsupported(in, fmt.Sprintf("%T", in))
	}
}

// embRefsOf lists the refs of the structs embedded (by value) in a struct at ref.
func (e *fnEnc) embRefsOf(ref string, t types.Type) []string {
	var out []string
	st, ok := types.Unalias(t).Underlying().(*types.Struct)
	if !ok || e.U.sortOf(t) == "RV" {
		return nil
	}
	for i := 0; i < st.NumFields(); i++ {
		f := st.Field(i)
		if isStructT(e.U, f.Type()) {
			r := e.U.embRef(ref, t, f)
			out = append(out, r)
			out = append(out, e.embRefsOf(r, f.Type())...)
		}
	}
	return out
}

func (e *fnEnc) note(s string) {
	for _, n := range e.notes {
		if n == s {
			return
		}
	}
	e.notes = append(e.notes, s)
}

func (e *fnEnc) unsupported(in ssa.Instruction, what string) {
	e.imprecise = append(e.imprecise, fmt.Sprintf("unsupported: %s (%s)", what, in.String()))
	if v, ok := in.(ssa.Value); ok {
		if _, has := e.val[v]; !has {
			e.val[v] = e.havocValue(v, "unsup")
		}
	}
	e.oblig("subset", "unsupported", nil, e.curReach, "false", in.Pos()).Note = what
}

func (e *fnEnc) descOf(a ssa.Value) *addrDesc {
	if d, ok := e.addr[a]; ok {
		return d
	}
	if g, ok := a.(*ssa.Global); ok {
		d := &addrDesc{kind: aGlobal, heap: e.U.globalHeap(g), T: g.Type().(*types.Pointer).Elem()}
		e.addr[a] = d
		return d
	}
	// plain pointer value
	t := e.get(a)
	if t.Sort != "Int" {
		return nil
	}
	pt := a.Type().Underlying().(*types.Pointer).Elem()
	if isStructT(e.U, pt) {
		return &addrDesc{kind: aStructRef, ref: t.S, T: pt}
	}
	return &addrDesc{kind: aDeref, ref: t.S, heap: e.U.derefHeap(pt), T: pt}
}

func (e *fnEnc) loadDesc(d *addrDesc, heap heapState) Term {
	U := e.U
	ht := e.heapTermIn(heap)
	switch d.kind {
	case aHeapField, aDeref:
		return Term{fmt.Sprintf("(select %s %s)", ht(d.heap), d.ref), d.heap.Elem, d.T}
	case aStructRef:
		var t Term
		e.inPriv(d, func() { t = U.loadAt(d.ref, d.T, ht) })
		return t
	case aGlobal:
		// globals declared in the prelude as G.pkg.name are immutable
		// constants (stores to them are frame violations)
		if sg, ok := U.Sigs["G."+strings.TrimPrefix(d.heap.Key, "global.")]; ok {
			return Term{sg.Name, sg.Res, d.T}
		}
		return Term{ht(d.heap), d.heap.Elem, d.T}
	case aLocalArr:
		if t, ok := e.localArr[d.arr][d.idx]; ok {
			return t
		}
		s := U.sortOf(d.T)
		return Term{U.zero(s), s, d.T}
	case aSliceElem:
		return Term{fmt.Sprintf("(%s.at %s %s)", d.slice.Sort, d.slice.S, d.idxT), U.slices[d.slice.Sort], d.T}
	}
	panic("loadDesc")
}

func (e *fnEnc) load(in *ssa.UnOp) {
	if fv, ok := in.X.(*ssa.FreeVar); ok {
		if t, byVal := e.capVal[fv]; byVal {
			t.T = in.Type()
			e.val[in] = []Term{t}
			return
		}
	}
	d := e.descOf(in.X)
	if d == nil {
		e.unsupported(in, "load through unknown address")
		return
	}
	if d.kind == aStructRef || d.kind == aDeref {
		e.safe("nilptr", fmt.Sprintf("(not (= %s 0))", d.ref), in.Pos())
	}
	t := e.loadDesc(d, e.curHeap)
	nt := e.define(in, t)
	e.typeFacts(nt, "")
}

func (e *fnEnc) setHeap(h *heapInfo, newTerm string) {
	nv := e.heapVersion(h)
	e.assert(fmt.Sprintf("(= %s %s)", nv, newTerm))
	e.curHeap[h.Key] = nv
}

func (e *fnEnc) storeDesc(d *addrDesc, v Term) {
	U := e.U
	switch d.kind {
	case aHeapField, aDeref:
		e.setHeap(d.heap, fmt.Sprintf("(store %s %s %s)", e.curHeapTerm(d.heap), d.ref, v.S))
	case aGlobal:
		if _, ok := U.Sigs["G."+strings.TrimPrefix(d.heap.Key, "global.")]; ok {
			e.oblig("frame", "immutable-global:"+d.heap.Key, nil, e.curReach, "false", token.NoPos)
		}
		e.setHeap(d.heap, v.S)
	case aStructRef:
		e.inPriv(d, func() { e.storeStruct(d.ref, d.T, v) })
	case aLocalArr:
		e.localArr[d.arr][d.idx] = v
		if e.localArrV[d.arr] == nil {
			e.localArrV[d.arr] = map[int]ssa.Value{}
		}
		e.localArrV[d.arr][d.idx] = e.lastStoreVal
	case aSliceElem:
		e.imprecise = append(e.imprecise, "store through slice element (slices are values in this model)")
		e.oblig("subset", "slice-elem-store", nil, e.curReach, "false", token.NoPos)
	}
	_ = U
}

func (e *fnEnc) storeStruct(ref string, t types.Type, v Term) {
	U := e.U
	st := types.Unalias(t).Underlying().(*types.Struct)
	si := U.structs[U.sortOf(t)]
	for i := 0; i < st.NumFields(); i++ {
		f := st.Field(i)
		fv := Term{fmt.Sprintf("(%s %s)", si.sel(i), v.S), si.FSorts[i], f.Type()}
		if isStructT(U, f.Type()) {
			e.storeStruct(U.embRef(ref, t, f), f.Type(), fv)
		} else {
			h := U.heapOfField(t, f)
			e.setHeap(h, fmt.Sprintf("(store %s %s %s)", e.curHeapTerm(h), ref, fv.S))
		}
	}
}

func (e *fnEnc) binop(in *ssa.BinOp) {
	x, y := e.get(in.X), e.get(in.Y)
	if x.Sort == "?nil" {
		x = Term{e.U.zero(y.Sort), y.Sort, nil}
	}
	op := in.Op
	bt, _ := in.X.Type().Underlying().(*types.Basic)
	switch op {
	case token.EQL, token.NEQ:
		var eq string
		switch {
		case x.Sort == "F64" || x.Sort == "F32":
			eq = fmt.Sprintf("(fp.eq %s %s)", x.S, y.S)
		case strings.HasPrefix(x.Sort, "Sl."):
			// only comparison with nil is legal in Go; nil-ness of a slice is
			// not modelled (nil and empty are identified): the result is an
			// unknown Boolean that can only be true for an empty slice.
			sl := x
			if !isNilConst(in.Y) {
				sl = y
			}
			eq = e.fresh("isnil", "Bool")
			e.assert(fmt.Sprintf("(=> %s (= (%s.len %s) 0))", eq, sl.Sort, sl.S))
			e.note("slice compared with nil: result abstracted")
		case x.Sort == "Any" && !isNilConst(in.X) && !isNilConst(in.Y):
			// interface comparison: panics on uncomparable dynamic types
			e.safe("iface-compare", fmt.Sprintf("(or (not (= (dyn %s) (dyn %s))) (comparableTag (dyn %s)))", x.S, y.S, x.S), in.Pos())
			eq = fmt.Sprintf("(= %s %s)", x.S, y.S)
		default:
			if x.Sort != y.Sort {
				e.unsupported(in, fmt.Sprintf("comparison across sorts %s/%s", x.Sort, y.Sort))
				return
			}
			eq = fmt.Sprintf("(= %s %s)", x.S, y.S)
		}
		if op == token.NEQ {
			eq = "(not " + eq + ")"
		}
		e.define(in, Term{S: eq, Sort: "Bool"})
	case token.LSS, token.LEQ, token.GTR, token.GEQ:
		m := map[token.Token]string{token.LSS: "<", token.LEQ: "<=", token.GTR: ">", token.GEQ: ">="}
		if x.Sort == "Int" {
			e.define(in, Term{S: fmt.Sprintf("(%s %s %s)", m[op], x.S, y.S), Sort: "Bool"})
		} else if x.Sort == "F64" || x.Sort == "F32" {
			fm := map[token.Token]string{token.LSS: "fp.lt", token.LEQ: "fp.leq", token.GTR: "fp.gt", token.GEQ: "fp.geq"}
			e.define(in, Term{S: fmt.Sprintf("(%s %s %s)", fm[op], x.S, y.S), Sort: "Bool"})
		} else if x.Sort == "Str" {
			e.define(in, Term{S: fmt.Sprintf("(s.%s %s %s)", map[token.Token]string{token.LSS: "lt", token.LEQ: "le", token.GTR: "gt", token.GEQ: "ge"}[op], x.S, y.S), Sort: "Bool"})
		} else {
			e.unsupported(in, "ordered comparison on "+x.Sort)
		}
	case token.ADD, token.SUB, token.MUL:
		if x.Sort == "Str" && op == token.ADD {
			e.define(in, Term{S: fmt.Sprintf("(s.cat %s %s)", x.S, y.S), Sort: "Str"})
			r := e.get(in)
			e.assert(fmt.Sprintf("(= (s.len %s) (+ (s.len %s) (s.len %s)))", r.S, x.S, y.S))
			return
		}
		if x.Sort != "Int" {
			e.unsupported(in, "arithmetic on "+x.Sort)
			return
		}
		m := map[token.Token]string{token.ADD: "+", token.SUB: "-", token.MUL: "*"}
		raw := fmt.Sprintf("(%s %s %s)", m[op], x.S, y.S)
		if bt != nil {
			lo, hi := intBounds(bt)
			e.safe("ovf", fmt.Sprintf("(and (<= %s %s) (<= %s %s))", smtInt(lo), raw, raw, smtInt(hi)), in.Pos())
		}
		e.define(in, Term{S: raw, Sort: "Int"})
	case token.QUO, token.REM:
		if x.Sort != "Int" {
			e.unsupported(in, "division on "+x.Sort)
			return
		}
		e.safe("div0", fmt.Sprintf("(not (= %s 0))", y.S), in.Pos())
		// Go truncates toward zero
		q := fmt.Sprintf("(ite (>= %s 0) (div %s %s) (- (div (- %s) %s)))", x.S, x.S, y.S, x.S, y.S)
		if op == token.REM {
			q = fmt.Sprintf("(- %s (* %s %s))", x.S, y.S, q)
		}
		e.define(in, Term{S: q, Sort: "Int"})
	default:
		e.unsupported(in, "binary "+op.String())
	}
}

func isNilConst(v ssa.Value) bool {
	c, ok := v.(*ssa.Const)
	return ok && c.Value == nil
}

func (e *fnEnc) convert(in *ssa.Convert) {
	U := e.U
	x := e.get(in.X)
	from, to := in.X.Type(), in.Type()
	fs, ts := x.Sort, U.sortOf(to)
	switch {
	case fs == "Int" && ts == "Int":
		tb, _ := types.Unalias(to).Underlying().(*types.Basic)
		fb, _ := types.Unalias(from).Underlying().(*types.Basic)
		if tb != nil && fb != nil {
			flo, fhi := intBounds(fb)
			tlo, thi := intBounds(tb)
			if flo.Cmp(tlo) >= 0 && fhi.Cmp(thi) <= 0 {
				e.val[in] = []Term{{x.S, "Int", to}}
				return
			}
			// may wrap: result equals x when in range, else unspecified in range
			r := e.havocValue(in, "conv")
			e.assert(fmt.Sprintf("(=> (and (<= %s %s) (<= %s %s)) (= %s %s))", smtInt(tlo), x.S, x.S, smtInt(thi), r[0].S, x.S))
			e.val[in] = r
			return
		}
		e.val[in] = []Term{{x.S, "Int", to}}
	case fs == "F64" && ts == "F32":
		e.define(in, Term{S: fmt.Sprintf("((_ to_fp 8 24) RNE %s)", x.S), Sort: "F32"})
	case fs == "F32" && ts == "F64":
		e.define(in, Term{S: fmt.Sprintf("((_ to_fp 11 53) RNE %s)", x.S), Sort: "F64"})
	case fs == ts && (fs == "F64" || fs == "F32" || fs == "Str"):
		e.val[in] = []Term{{x.S, fs, to}}
	case strings.HasPrefix(fs, "Sl.") && ts == "Str":
		e.define(in, Term{S: fmt.Sprintf("(s.ofbytes %s)", x.S), Sort: "Str"})
		r := e.get(in)
		e.assert(fmt.Sprintf("(= (s.len %s) (%s.len %s))", r.S, fs, x.S))
	case fs == "Str" && strings.HasPrefix(ts, "Sl."):
		e.define(in, Term{S: fmt.Sprintf("(s.tobytes %s)", x.S), Sort: ts})
		r := e.get(in)
		e.assert(fmt.Sprintf("(= (%s.len %s) (s.len %s))", ts, r.S, x.S))
		e.assert(fmt.Sprintf("(= (s.ofbytes %s) %s)", r.S, x.S))
	case fs == ts:
		e.val[in] = []Term{{x.S, fs, to}}
	default:
		e.val[in] = e.havocValue(in, "conv")
		e.note(fmt.Sprintf("conversion %s -> %s abstracted", fs, ts))
	}
}

func (e *fnEnc) sliceOp(in *ssa.Slice) {
	U := e.U
	// slice of a local array: literal sequence
	if al, ok := in.X.(*ssa.Alloc); ok && e.localArr[al] != nil {
		arrT := al.Type().Underlying().(*types.Pointer).Elem().Underlying().(*types.Array)
		s := U.sliceSort(arrT.Elem())
		if c, ok := in.High.(*ssa.Const); ok && in.Low == nil && c.Int64() == 0 {
			e.val[in] = []Term{{s + ".empty", s, in.Type()}}
			return
		}
		if in.Low != nil || in.High != nil {
			e.unsupported(in, "partial slice of local array")
			return
		}
		term := s + ".empty"
		zs := U.zero(U.sortOf(arrT.Elem()))
		var elems []string
		for i := 0; i < int(arrT.Len()); i++ {
			el := zs
			if t, ok := e.localArr[al][i]; ok {
				el = t.S
			}
			elems = append(elems, el)
			term = fmt.Sprintf("(%s.snoc %s %s)", s, term, el)
		}
		var nt Term
		if s == "Sl.Any" {
			// []any literals are only ever varargs of fmt-style functions: no
			// structural definition (keeps those queries quantifier-free)
			nt = Term{e.fresh("lit."+in.Name(), s), s, in.Type()}
			e.val[in] = []Term{nt}
		} else {
			nt = e.define(in, Term{S: term, Sort: s})
		}
		e.lits[nt.S] = elems
		var vals []ssa.Value
		for i := 0; i < int(arrT.Len()); i++ {
			vals = append(vals, e.localArrV[al][i])
		}
		e.litVals[nt.S] = vals
		e.assert(fmt.Sprintf("(= (%s.len %s) %d)", s, nt.S, arrT.Len()))
		for i := 0; i < int(arrT.Len()); i++ {
			el := zs
			if t, ok := e.localArr[al][i]; ok {
				el = t.S
			}
			e.assert(fmt.Sprintf("(= (%s.at %s %d) %s)", s, nt.S, i, el))
		}
		return
	}
	x := e.get(in.X)
	lo := "0"
	if in.Low != nil {
		lo = e.get(in.Low).S
	}
	switch {
	case x.Sort == "Str":
		hi := fmt.Sprintf("(s.len %s)", x.S)
		if in.High != nil {
			hi = e.get(in.High).S
		}
		e.safe("slice-bounds", fmt.Sprintf("(and (<= 0 %s) (<= %s %s) (<= %s (s.len %s)))", lo, lo, hi, hi, x.S), in.Pos())
		nt := e.define(in, Term{S: fmt.Sprintf("(s.sub %s %s %s)", x.S, lo, hi), Sort: "Str"})
		e.assert(fmt.Sprintf("(= (s.len %s) (- %s %s))", nt.S, hi, lo))
	case strings.HasPrefix(x.Sort, "Sl."):
		hi := fmt.Sprintf("(%s.len %s)", x.Sort, x.S)
		capOK := ""
		if in.High != nil {
			hi = e.get(in.High).S
			// Go allows hi up to cap; our model has no capacity: require <= len
			capOK = " (model: slicing beyond len up to cap is outside the subset)"
		}
		e.safe("slice-bounds", fmt.Sprintf("(and (<= 0 %s) (<= %s %s) (<= %s (%s.len %s)))", lo, lo, hi, hi, x.Sort, x.S), in.Pos())
		_ = capOK
		nt := e.define(in, Term{S: fmt.Sprintf("(%s.sub %s %s %s)", x.Sort, x.S, lo, hi), Sort: x.Sort})
		e.assert(fmt.Sprintf("(= (%s.len %s) (- %s %s))", x.Sort, nt.S, hi, lo))
	default:
		e.unsupported(in, "slice of "+x.Sort)
	}
}

func (e *fnEnc) typeAssert(in *ssa.TypeAssert) {
	U := e.U
	x := e.get(in.X)
	at := in.AssertedType
	var ok string
	var val Term
	if _, isI := types.Unalias(at).Underlying().(*types.Interface); isI {
		if n, named := types.Unalias(at).(*types.Named); named {
			k := namedKey(n)
			U.impls[k] = n
			ok = fmt.Sprintf("(and (not (= %s nilAny)) (impl.%s (dyn %s)))", x.S, k, x.S)
		} else {
			// empty / anonymous interface: any non-nil value
			ok = fmt.Sprintf("(not (= %s nilAny))", x.S)
		}
		val = Term{x.S, U.sortOf(at), at}
		if val.Sort != "Any" {
			e.unsupported(in, "type assertion to special interface sort")
			return
		}
	} else {
		U.tagOf(at)
		ok = fmt.Sprintf("(= (dyn %s) %s)", x.S, tagSym(U.typeKey(at)))
		val = Term{fmt.Sprintf("(%s %s)", U.unboxSym(at), x.S), U.sortOf(at), at}
	}
	if in.CommaOk {
		okc := e.fresh("ok."+in.Name(), "Bool")
		e.assert(fmt.Sprintf("(= %s %s)", okc, ok))
		vc := e.fresh("ta."+in.Name(), val.Sort)
		e.assert(fmt.Sprintf("(= %s (ite %s %s %s))", vc, okc, val.S, U.zero(val.Sort)))
		vt := Term{vc, val.Sort, at}
		e.typeFacts(vt, okc)
		if _, isI := types.Unalias(at).Underlying().(*types.Interface); !isI {
			e.assert(fmt.Sprintf("(=> %s (= %s %s))", okc, x.S, U.boxTerm(at, vc)))
		}
		e.val[in] = []Term{vt, {okc, "Bool", types.Typ[types.Bool]}}
		return
	}
	e.safe("typeassert", ok, in.Pos())
	nt := e.define(in, val)
	e.typeFacts(nt, "")
	if _, isI := types.Unalias(at).Underlying().(*types.Interface); !isI {
		e.assert(fmt.Sprintf("(=> %s (= %s %s))", e.curReach, x.S, U.boxTerm(at, nt.S)))
	}
}

func (e *fnEnc) ret(in *ssa.Return) {
	var res []Term
	for _, r := range in.Results {
		res = append(res, e.get(r))
	}
	if e.inlRets != nil {
		// return of an inlined callee: recorded, merged by the caller
		*e.inlRets = append(*e.inlRets, inlRet{reach: e.curReach, res: res, heap: e.curHeap.clone()})
		return
	}
	e.retCount++
	e.checkPosts(res, in.Pos(), fmt.Sprintf("ret%d", e.retCount))
}

func (e *fnEnc) checkPosts(res []Term, pos token.Pos, where string) {
	// vacuity canary: this return must be reachable under the requires
	v := e.oblig("vacuity", "reach-"+where, nil, e.curReach, "true", pos)
	v.ExpectSat = true
	if e.con == nil {
		return
	}
	env := e.baseEnv()
	vars := map[string]Term{}
	for k, v := range e.params {
		vars[k] = v
	}
	for i, n := range e.con.Results {
		if i < len(res) {
			vars[n] = res[i]
		}
	}
	env.vars = vars
	env.heap = e.curHeap
	env.old = heapState{}
	clauses := e.con.Ensures
	if e.inRecover {
		clauses = append(append([]*Clause(nil), clauses...), e.con.EnsuresRecovered...)
	}
	for _, c := range clauses {
		t, err := env.tr(c.Expr, "Bool")
		if err != nil {
			e.fail("%s:%d: ensures: %v", c.File, c.Line, err)
		}
		o := e.oblig("post", clauseName(c), c.Props, e.curReach, t.S, pos)
		o.Clause = c
		o.Note = where
	}
}

func sortedHeapKeys(h heapState) []string {
	ks := make([]string, 0, len(h))
	for k := range h {
		ks = append(ks, k)
	}
	sortStrings(ks)
	return ks
}

func sortStrings(s []string) {
	for i := 1; i < len(s); i++ {
		for j := i; j > 0 && s[j] < s[j-1]; j-- {
			s[j], s[j-1] = s[j-1], s[j]
		}
	}
}

// deferInfo: a deferred closure call and the condition under which the
// defer statement was executed.
type deferInfo struct {
	instr *ssa.Defer
	guard string
	heap  heapState
}

// writesAfter: heap keys that instructions executed after `from` may write.
func (e *fnEnc) writesAfter(from ssa.Instruction) map[string]bool {
	out := map[string]bool{}
	seen := map[*ssa.BasicBlock]bool{}
	var visit func(b *ssa.BasicBlock, start int)
	visit = func(b *ssa.BasicBlock, start int) {
		for i := start; i < len(b.Instrs); i++ {
			for _, k := range e.writesOf(b.Instrs[i]) {
				out[k] = true
			}
		}
		for _, s := range b.Succs {
			if !seen[s] {
				seen[s] = true
				visit(s, 0)
			}
		}
	}
	b := from.Block()
	for i, in := range b.Instrs {
		if in == from {
			visit(b, i+1)
		}
	}
	return out
}

// runDefers: on a normal return the deferred closures run with recover()
// returning nil. A deferred call of a closure under contract applies that
// contract with `recovered` = false, guarded by "the defer statement was
// executed"; anything else is abstracted (every heap havocked).
func (e *fnEnc) runDefers(in *ssa.RunDefers) {
	for i := len(e.deferInfos) - 1; i >= 0; i-- {
		e.applyDeferred(e.deferInfos[i], false)
	}
}

func (e *fnEnc) applyDeferred(d deferInfo, recovered bool) {
	cc := d.instr.Common()
	mc, ok := cc.Value.(*ssa.MakeClosure)
	var con *Contract
	var ctor *fnCtor
	if ok {
		fn := mc.Fn.(*ssa.Function)
		con = e.V.CS.ByKey[funcKey(fn)]
		ctor = e.U.fnCtorOf(fn)
	}
	pre := e.curHeap.clone()
	if con == nil {
		e.havocAllHeaps()
		e.imprecise = append(e.imprecise, "deferred call without a contract: every heap havocked at function exit")
	} else {
		if con.HasAssigns {
			for _, a := range stripLoc(con.Assigns) {
				if a == "*" {
					e.havocAllHeaps()
					break
				}
				if h := e.U.heapByKey(a); h != nil {
					e.curHeap[a] = e.heapVersion(h)
				}
			}
		} else {
			e.havocAllHeaps()
		}
		post := e.curHeap.clone()
		extra := map[string]Term{"recovered": {S: fmt.Sprint(recovered), Sort: "Bool"}}
		fn := mc.Fn.(*ssa.Function)
		for i, fv := range fn.FreeVars {
			b := e.get(mc.Bindings[i])
			if ctor.ByVal[i] {
				dd := e.descOf(mc.Bindings[i])
				b = e.loadDesc(dd, pre)
			}
			b.T = ctor.CapTs[i]
			extra[fv.Name()] = b
		}
		var args []Term
		for _, a := range cc.Args {
			args = append(args, e.get(a))
		}
		saved := e.curReach
		e.applyContractAt(con, args, nil, d.instr.Pos(), d.guard, "deferred:"+shortKey(con.Key), pre, post, extra)
		e.curReach = saved
	}
	// when the defer statement was not executed nothing happens
	for _, k := range sortedHeapKeys(e.curHeap) {
		h := e.U.heaps[k]
		if h == nil {
			continue
		}
		after := e.curHeap[k]
		before := e.heapTermIn(pre)(h)
		if after == before {
			continue
		}
		nv := e.heapVersion(h)
		e.assert(fmt.Sprintf("(= %s (ite %s %s %s))", nv, d.guard, after, before))
		e.curHeap[k] = nv
	}
}

// recoverBlock encodes fn.Recover: control arrives there after a panic was
// recovered by a deferred function. Everything the function did before the
// panic is unknown (all heaps havocked); then the deferred closures have run
// with recover() != nil.
func (e *fnEnc) recoverBlock() {
	b := e.fn.Recover
	if b == nil || len(e.deferInfos) == 0 {
		return
	}
	var guards []string
	for _, d := range e.deferInfos {
		guards = append(guards, d.guard)
	}
	r := e.fresh("reach.recover", "Bool")
	e.assert(fmt.Sprintf("(=> %s (or %s))", r, strings.Join(guards, " ")))
	e.curBlock = b
	e.curReach = r
	e.reachIn[b] = r
	// state at the panic: what held when the (first) defer statement ran,
	// with every heap key that can be written afterwards havocked
	first := e.deferInfos[0]
	e.curHeap = first.heap.clone()
	ws := e.writesAfter(first.instr)
	if ws["*"] {
		e.havocAllHeaps()
	} else {
		for _, k := range sortedBoolKeys(ws) {
			h := e.U.heapByKey(k)
			if h == nil {
				h = e.U.heaps[k]
			}
			if h != nil {
				e.curHeap[k] = e.heapVersion(h)
			}
		}
	}
	// the activation's own variables that no other function can reach and that
	// this function does not store to after the defer statement still hold
	// what they held then (e.g. the cell of a parameter captured by the
	// deferred literal), whatever the callees did to the shared heaps
	stored := e.storedAfter(first.instr)
	for _, al := range e.nonEscapingAllocs() {
		if stored[al] {
			continue
		}
		t, ok := e.val[al]
		if !ok || len(t) == 0 {
			continue
		}
		pt := al.Type().Underlying().(*types.Pointer).Elem()
		for _, cell := range e.allocCells(t[0].S, pt) {
			hi := e.U.heaps[cell[0]]
			if hi == nil {
				continue
			}
			a, b2 := e.heapTermIn(first.heap)(hi), e.curHeapTerm(hi)
			if a != b2 {
				e.assert(fmt.Sprintf("(= (select %s %s) (select %s %s))", b2, cell[1], a, cell[1]))
			}
		}
	}
	for i := len(e.deferInfos) - 1; i >= 0; i-- {
		e.applyDeferred(e.deferInfos[i], true)
	}
	e.inRecover = true
	for _, in := range b.Instrs {
		e.instr(in)
	}
	e.inRecover = false
}

// storedAfter: the Allocs of this function that an instruction reachable after
// `from` stores to (directly or through a field address).
func (e *fnEnc) storedAfter(from ssa.Instruction) map[*ssa.Alloc]bool {
	out := map[*ssa.Alloc]bool{}
	seen := map[*ssa.BasicBlock]bool{}
	var visit func(b *ssa.BasicBlock, start int)
	visit = func(b *ssa.BasicBlock, start int) {
		for i := start; i < len(b.Instrs); i++ {
			if st, ok := b.Instrs[i].(*ssa.Store); ok {
				if al, isAl := rootOf(st.Addr).(*ssa.Alloc); isAl {
					out[al] = true
				}
			}
		}
		for _, s := range b.Succs {
			if !seen[s] {
				seen[s] = true
				visit(s, 0)
			}
		}
	}
	b := from.Block()
	for i, in := range b.Instrs {
		if in == from {
			visit(b, i+1)
		}
	}
	return out
}
