package main

import (
	"bytes"
	"fmt"
	"go/ast"
	"go/parser"
	"go/printer"
	"go/token"
	"os"
	"path/filepath"
	"reflect"
	"sort"
	"strconv"
	"strings"
	"unicode"
)

// C20: translation validation of grammar.go's rule table and action functions
// against grammar.peg, re-derived on every run (DESIGN §6 C20). Decided by
// evaluation inside bxv; nothing is executed.

type pnode struct {
	Kind string
	Attr map[string]string
	Kids []*pnode
	Code string   // peg side: code block of an action / code predicate
	Lbls []string // labels in scope for the code block
	Idx  int      // pre-order index within its rule (1 = the rule's expression)
}

func newPN(kind string) *pnode { return &pnode{Kind: kind, Attr: map[string]string{}} }

// ---- PEG reader --------------------------------------------------------------

type pegReader struct {
	src string
	pos int
	err error
}

func (r *pegReader) fail(format string, a ...any) {
	if r.err == nil {
		line := 1 + strings.Count(r.src[:r.pos], "\n")
		r.err = fmt.Errorf("grammar.peg:%d: %s", line, fmt.Sprintf(format, a...))
	}
}

func (r *pegReader) ws() {
	for r.pos < len(r.src) {
		c := r.src[r.pos]
		switch {
		case c == ' ' || c == '\t' || c == '\n' || c == '\r':
			r.pos++
		case strings.HasPrefix(r.src[r.pos:], "//"):
			for r.pos < len(r.src) && r.src[r.pos] != '\n' {
				r.pos++
			}
		case strings.HasPrefix(r.src[r.pos:], "/*"):
			e := strings.Index(r.src[r.pos:], "*/")
			if e < 0 {
				r.pos = len(r.src)
			} else {
				r.pos += e + 2
			}
		default:
			return
		}
	}
}

func isIdentStart(c byte) bool { return c == '_' || c >= 'a' && c <= 'z' || c >= 'A' && c <= 'Z' }
func isIdentChar(c byte) bool  { return isIdentStart(c) || c >= '0' && c <= '9' }

func (r *pegReader) ident() string {
	r.ws()
	st := r.pos
	if r.pos < len(r.src) && isIdentStart(r.src[r.pos]) {
		for r.pos < len(r.src) && isIdentChar(r.src[r.pos]) {
			r.pos++
		}
	}
	return r.src[st:r.pos]
}

// codeBlock reads a balanced { ... } block (strings, runes, raw strings and comments respected).
func (r *pegReader) codeBlock() string {
	r.ws()
	if r.pos >= len(r.src) || r.src[r.pos] != '{' {
		r.fail("expected code block")
		return ""
	}
	depth := 0
	st := r.pos
	for r.pos < len(r.src) {
		c := r.src[r.pos]
		switch {
		case c == '"' || c == '\'':
			q := c
			r.pos++
			for r.pos < len(r.src) && r.src[r.pos] != q {
				if r.src[r.pos] == '\\' {
					r.pos++
				}
				r.pos++
			}
		case c == '`':
			r.pos++
			for r.pos < len(r.src) && r.src[r.pos] != '`' {
				r.pos++
			}
		case strings.HasPrefix(r.src[r.pos:], "//"):
			for r.pos < len(r.src) && r.src[r.pos] != '\n' {
				r.pos++
			}
			continue
		case c == '{':
			depth++
		case c == '}':
			depth--
			if depth == 0 {
				r.pos++
				return r.src[st+1 : r.pos-1]
			}
		}
		r.pos++
	}
	r.fail("unterminated code block")
	return ""
}

func (r *pegReader) stringLit() (string, bool) {
	r.ws()
	if r.pos >= len(r.src) {
		return "", false
	}
	q := r.src[r.pos]
	if q != '"' && q != '\'' && q != '`' {
		return "", false
	}
	st := r.pos
	r.pos++
	for r.pos < len(r.src) && r.src[r.pos] != q {
		if r.src[r.pos] == '\\' && q != '`' {
			r.pos++
		}
		r.pos++
	}
	r.pos++
	raw := r.src[st:r.pos]
	var val string
	var err error
	if q == '\'' {
		// pigeon: single-quoted literals are strings too
		inner := raw[1 : len(raw)-1]
		if inner == `"` {
			val = `"`
		} else {
			val, err = strconv.Unquote(`"` + strings.ReplaceAll(inner, `"`, `\"`) + `"`)
			val = strings.ReplaceAll(val, `\'`, `'`)
		}
	} else {
		val, err = strconv.Unquote(raw)
	}
	if err != nil {
		r.fail("bad literal %s: %v", raw, err)
	}
	return val, true
}

// lookaheadRuleStart: Identifier StringLit? "<-"
func (r *pegReader) atRuleStart() bool {
	save := r.pos
	defer func() { r.pos = save }()
	if r.ident() == "" {
		return false
	}
	r.stringLit()
	r.ws()
	return strings.HasPrefix(r.src[r.pos:], "<-") || strings.HasPrefix(r.src[r.pos:], "←") || strings.HasPrefix(r.src[r.pos:], "=")
}

func (r *pegReader) grammar() (init string, rules []*pnode) {
	r.ws()
	if r.pos < len(r.src) && r.src[r.pos] == '{' {
		init = r.codeBlock()
	}
	for r.err == nil {
		r.ws()
		if r.pos >= len(r.src) {
			break
		}
		rules = append(rules, r.rule())
	}
	return
}

func (r *pegReader) rule() *pnode {
	n := newPN("rule")
	n.Attr["name"] = r.ident()
	if n.Attr["name"] == "" {
		r.fail("expected rule name")
		return n
	}
	if s, ok := r.stringLit(); ok {
		n.Attr["displayName"] = strconv.Quote(s)
	}
	r.ws()
	switch {
	case strings.HasPrefix(r.src[r.pos:], "<-"):
		r.pos += 2
	case strings.HasPrefix(r.src[r.pos:], "←"):
		r.pos += len("←")
	default:
		r.fail("expected <-")
		return n
	}
	n.Kids = []*pnode{r.choice()}
	return n
}

func (r *pegReader) choice() *pnode {
	alts := []*pnode{r.action()}
	for {
		r.ws()
		if r.pos < len(r.src) && r.src[r.pos] == '/' && !strings.HasPrefix(r.src[r.pos:], "//") && !strings.HasPrefix(r.src[r.pos:], "/*") {
			r.pos++
			alts = append(alts, r.action())
			continue
		}
		break
	}
	if len(alts) == 1 {
		return alts[0]
	}
	n := newPN("choiceExpr")
	n.Kids = alts
	return n
}

func (r *pegReader) action() *pnode {
	seq := r.seq()
	r.ws()
	if r.pos < len(r.src) && r.src[r.pos] == '{' {
		n := newPN("actionExpr")
		n.Code = r.codeBlock()
		n.Kids = []*pnode{seq}
		return n
	}
	return seq
}

func (r *pegReader) seq() *pnode {
	var items []*pnode
	for r.err == nil {
		r.ws()
		if r.pos >= len(r.src) {
			break
		}
		c := r.src[r.pos]
		if c == '/' || c == ')' || c == '{' || r.atRuleStart() {
			break
		}
		items = append(items, r.labeled())
	}
	if len(items) == 0 {
		r.fail("empty sequence")
		return newPN("seqExpr")
	}
	if len(items) == 1 {
		return items[0]
	}
	n := newPN("seqExpr")
	n.Kids = items
	return n
}

func (r *pegReader) labeled() *pnode {
	save := r.pos
	id := r.ident()
	r.ws()
	if id != "" && r.pos < len(r.src) && r.src[r.pos] == ':' {
		r.pos++
		n := newPN("labeledExpr")
		n.Attr["label"] = id
		n.Kids = []*pnode{r.prefixed()}
		return n
	}
	r.pos = save
	return r.prefixed()
}

func (r *pegReader) prefixed() *pnode {
	r.ws()
	if r.pos < len(r.src) && (r.src[r.pos] == '&' || r.src[r.pos] == '!') {
		op := r.src[r.pos]
		r.pos++
		r.ws()
		if r.pos < len(r.src) && r.src[r.pos] == '{' {
			n := newPN(map[byte]string{'&': "andCodeExpr", '!': "notCodeExpr"}[op])
			n.Code = r.codeBlock()
			return n
		}
		n := newPN(map[byte]string{'&': "andExpr", '!': "notExpr"}[op])
		n.Kids = []*pnode{r.suffixed()}
		return n
	}
	return r.suffixed()
}

func (r *pegReader) suffixed() *pnode {
	p := r.primary()
	r.ws()
	if r.pos < len(r.src) {
		switch r.src[r.pos] {
		case '?', '*', '+':
			k := map[byte]string{'?': "zeroOrOneExpr", '*': "zeroOrMoreExpr", '+': "oneOrMoreExpr"}[r.src[r.pos]]
			r.pos++
			n := newPN(k)
			n.Kids = []*pnode{p}
			return n
		}
	}
	return p
}

func (r *pegReader) primary() *pnode {
	r.ws()
	if r.pos >= len(r.src) {
		r.fail("unexpected end")
		return newPN("?")
	}
	c := r.src[r.pos]
	switch {
	case c == '"' || c == '\'' || c == '`':
		v, _ := r.stringLit()
		n := newPN("litMatcher")
		ic := false
		if r.pos < len(r.src) && r.src[r.pos] == 'i' && (r.pos+1 >= len(r.src) || !isIdentChar(r.src[r.pos+1])) {
			r.pos++
			ic = true
			v = strings.ToLower(v)
		}
		n.Attr["val"] = v
		n.Attr["ignoreCase"] = strconv.FormatBool(ic)
		w := strconv.Quote(v)
		if ic {
			w += "i"
		}
		n.Attr["want"] = w
		return n
	case c == '[':
		st := r.pos
		r.pos++
		for r.pos < len(r.src) && r.src[r.pos] != ']' {
			if r.src[r.pos] == '\\' {
				r.pos++
			}
			r.pos++
		}
		r.pos++
		raw := r.src[st:r.pos]
		ic := false
		if r.pos < len(r.src) && r.src[r.pos] == 'i' && (r.pos+1 >= len(r.src) || !isIdentChar(r.src[r.pos+1])) {
			r.pos++
			ic = true
			raw += "i"
		}
		return r.charClass(raw, ic)
	case c == '.':
		r.pos++
		return newPN("anyMatcher")
	case c == '(':
		r.pos++
		e := r.choice()
		r.ws()
		if r.pos < len(r.src) && r.src[r.pos] == ')' {
			r.pos++
		} else {
			r.fail("expected )")
		}
		return e
	case isIdentStart(c):
		n := newPN("ruleRefExpr")
		n.Attr["name"] = r.ident()
		return n
	}
	r.fail("unexpected %q", c)
	r.pos++
	return newPN("?")
}

func (r *pegReader) charClass(raw string, ic bool) *pnode {
	n := newPN("charClassMatcher")
	n.Attr["val"] = raw
	n.Attr["ignoreCase"] = strconv.FormatBool(ic)
	body := strings.TrimSuffix(raw, "i")
	body = body[1 : len(body)-1]
	inv := false
	if strings.HasPrefix(body, "^") {
		inv = true
		body = body[1:]
	}
	n.Attr["inverted"] = strconv.FormatBool(inv)
	// tokenise into runes / classes
	type item struct {
		r     rune
		class string
	}
	var items []item
	rs := []rune(body)
	for i := 0; i < len(rs); i++ {
		c := rs[i]
		if c == '\\' && i+1 < len(rs) {
			i++
			switch rs[i] {
			case 'p':
				i++
				if i < len(rs) && rs[i] == '{' {
					j := i
					for j < len(rs) && rs[j] != '}' {
						j++
					}
					items = append(items, item{class: string(rs[i+1 : j])})
					i = j
				} else if i < len(rs) {
					items = append(items, item{class: string(rs[i])})
				}
			case 'n':
				items = append(items, item{r: '\n'})
			case 't':
				items = append(items, item{r: '\t'})
			case 'r':
				items = append(items, item{r: '\r'})
			case 'a':
				items = append(items, item{r: '\a'})
			case 'b':
				items = append(items, item{r: '\b'})
			case 'f':
				items = append(items, item{r: '\f'})
			case 'v':
				items = append(items, item{r: '\v'})
			default:
				items = append(items, item{r: rs[i]})
			}
			continue
		}
		items = append(items, item{r: c})
	}
	var chars, ranges []rune
	var classes []string
	for i := 0; i < len(items); i++ {
		it := items[i]
		if it.class != "" {
			classes = append(classes, it.class)
			continue
		}
		if i+2 < len(items) && items[i+1].class == "" && items[i+1].r == '-' && items[i+2].class == "" {
			lo, hi := it.r, items[i+2].r
			if ic {
				lo, hi = unicode.ToLower(lo), unicode.ToLower(hi)
			}
			ranges = append(ranges, lo, hi)
			i += 2
			continue
		}
		c := it.r
		if ic {
			c = unicode.ToLower(c)
		}
		chars = append(chars, c)
	}
	n.Attr["chars"] = string(chars)
	n.Attr["ranges"] = string(ranges)
	n.Attr["classes"] = strings.Join(classes, ",")
	return n
}

// number assigns pre-order indexes and label scopes (what pigeon names on<Rule><idx>).
func numberRule(rule *pnode) {
	idx := 0
	var walk func(n *pnode, labels *[]string)
	walk = func(n *pnode, labels *[]string) {
		idx++
		n.Idx = idx
		switch n.Kind {
		case "actionExpr":
			// labels of the action: those of its (sequence) expression
			var ls []string
			for _, k := range n.Kids {
				walk(k, &ls)
			}
			n.Lbls = ls
			return
		case "labeledExpr":
			*labels = append(*labels, n.Attr["label"])
			var inner []string
			for _, k := range n.Kids {
				walk(k, &inner)
			}
			return
		case "andCodeExpr", "notCodeExpr":
			n.Lbls = append([]string(nil), (*labels)...)
			return
		case "seqExpr":
			for _, k := range n.Kids {
				walk(k, labels)
			}
			return
		}
		var inner []string
		for _, k := range n.Kids {
			walk(k, &inner)
		}
	}
	var top []string
	for _, k := range rule.Kids {
		walk(k, &top)
	}
}

// ---- the actual table (go/ast of grammar.go) ------------------------------------

func litString(e ast.Expr) string {
	if bl, ok := e.(*ast.BasicLit); ok {
		switch bl.Kind {
		case token.STRING:
			s, _ := strconv.Unquote(bl.Value)
			return s
		case token.CHAR:
			s, _ := strconv.Unquote(bl.Value)
			return s
		}
		return bl.Value
	}
	if id, ok := e.(*ast.Ident); ok {
		return id.Name
	}
	return "?"
}

func tableNode(e ast.Expr, kindHint string) *pnode {
	if u, ok := e.(*ast.UnaryExpr); ok && u.Op == token.AND {
		e = u.X
	}
	cl, ok := e.(*ast.CompositeLit)
	if !ok {
		return newPN("?")
	}
	kind := kindHint
	if id, ok := cl.Type.(*ast.Ident); ok {
		kind = id.Name
	}
	n := newPN(kind)
	for _, el := range cl.Elts {
		kv, ok := el.(*ast.KeyValueExpr)
		if !ok {
			continue
		}
		key := kv.Key.(*ast.Ident).Name
		switch key {
		case "pos":
		case "expr":
			n.Kids = append(n.Kids, tableNode(kv.Value, "?"))
		case "alternatives", "exprs":
			if l, ok := kv.Value.(*ast.CompositeLit); ok {
				for _, x := range l.Elts {
					n.Kids = append(n.Kids, tableNode(x, "?"))
				}
			}
		case "run":
			if se, ok := kv.Value.(*ast.SelectorExpr); ok {
				n.Attr["run"] = se.Sel.Name
			}
		case "chars", "ranges":
			var rs []rune
			if l, ok := kv.Value.(*ast.CompositeLit); ok {
				for _, x := range l.Elts {
					s := litString(x)
					for _, r := range s {
						rs = append(rs, r)
					}
				}
			}
			n.Attr[key] = string(rs)
		case "classes":
			var cs []string
			if l, ok := kv.Value.(*ast.CompositeLit); ok {
				for _, x := range l.Elts {
					if c, ok := x.(*ast.CallExpr); ok && len(c.Args) == 1 {
						cs = append(cs, litString(c.Args[0]))
					}
				}
			}
			n.Attr[key] = strings.Join(cs, ",")
		default:
			n.Attr[key] = litString(kv.Value)
		}
	}
	return n
}

// renderBody prints a statement block in a position-independent canonical
// form: all positions are zeroed before printing, comments are not attached.
func renderBody(fset *token.FileSet, n ast.Node) string {
	stripPositions(reflect.ValueOf(n), map[uintptr]bool{})
	var b bytes.Buffer
	cfg := printer.Config{Mode: printer.RawFormat}
	_ = cfg.Fprint(&b, token.NewFileSet(), n)
	out := strings.Join(strings.Fields(b.String()), " ")
	// a trailing comma before a closing brace is layout only
	out = strings.ReplaceAll(out, ", }", " }")
	out = strings.ReplaceAll(out, ",}", "}")
	out = strings.ReplaceAll(out, "{ ", "{")
	out = strings.ReplaceAll(out, " }", "}")
	return out
}

var posType = reflect.TypeOf(token.NoPos)

func stripPositions(v reflect.Value, seen map[uintptr]bool) {
	switch v.Kind() {
	case reflect.Ptr:
		if v.IsNil() || seen[v.Pointer()] {
			return
		}
		seen[v.Pointer()] = true
		stripPositions(v.Elem(), seen)
	case reflect.Interface:
		if !v.IsNil() {
			stripPositions(v.Elem(), seen)
		}
	case reflect.Struct:
		for i := 0; i < v.NumField(); i++ {
			f := v.Field(i)
			if f.Type() == posType {
				if f.CanSet() {
					f.SetInt(0)
				}
				continue
			}
			// Obj/Scope links are irrelevant and cyclic
			if n := v.Type().Field(i).Name; n == "Obj" || n == "Scope" || n == "Unresolved" {
				continue
			}
			stripPositions(f, seen)
		}
	case reflect.Slice:
		for i := 0; i < v.Len(); i++ {
			stripPositions(v.Index(i), seen)
		}
	}
}

type pegFinding struct {
	name, note string
	ok         bool
}

// validateGrammar compares grammar.go with grammar.peg.
func validateGrammar(repo string) (findings []pegFinding, stats map[string]int, err error) {
	stats = map[string]int{}
	pegSrc, err := os.ReadFile(filepath.Join(repo, "grammar", "grammar.peg"))
	if err != nil {
		return nil, stats, err
	}
	rd := &pegReader{src: string(pegSrc)}
	_, rules := rd.grammar()
	if rd.err != nil {
		return nil, stats, rd.err
	}
	fset := token.NewFileSet()
	gf, err := parser.ParseFile(fset, filepath.Join(repo, "grammar", "grammar.go"), nil, 0)
	if err != nil {
		return nil, stats, err
	}
	// actual table
	var actual []*pnode
	funcs := map[string]*ast.FuncDecl{}
	for _, d := range gf.Decls {
		switch d := d.(type) {
		case *ast.GenDecl:
			for _, sp := range d.Specs {
				vs, ok := sp.(*ast.ValueSpec)
				if !ok || len(vs.Names) != 1 || vs.Names[0].Name != "g" || len(vs.Values) != 1 {
					continue
				}
				u, ok := vs.Values[0].(*ast.UnaryExpr)
				if !ok {
					continue
				}
				cl := u.X.(*ast.CompositeLit)
				for _, el := range cl.Elts {
					kv := el.(*ast.KeyValueExpr)
					if kv.Key.(*ast.Ident).Name == "rules" {
						for _, r := range kv.Value.(*ast.CompositeLit).Elts {
							actual = append(actual, tableNode(r, "rule"))
						}
					}
				}
			}
		case *ast.FuncDecl:
			funcs[d.Name.Name] = d
		}
	}
	add := func(name string, ok bool, note string) {
		findings = append(findings, pegFinding{name, note, ok})
	}
	add("table:rule-count", len(actual) == len(rules), fmt.Sprintf("grammar.peg has %d rules, the table has %d", len(rules), len(actual)))
	stats["rules"] = len(rules)
	usedFuncs := map[string]bool{}
	for i, pr := range rules {
		numberRule(pr)
		if i >= len(actual) {
			add("table:"+pr.Attr["name"]+":missing", false, "rule missing from the table")
			continue
		}
		ar := actual[i]
		rn := pr.Attr["name"]
		add("table:"+rn+":name", ar.Attr["name"] == rn, fmt.Sprintf("rule %d is %q in the table, %q in grammar.peg", i, ar.Attr["name"], rn))
		add("table:"+rn+":displayName", ar.Attr["displayName"] == pr.Attr["displayName"], fmt.Sprintf("displayName %q vs %q", ar.Attr["displayName"], pr.Attr["displayName"]))
		var cmp func(p, a *pnode, path string)
		cmp = func(p, a *pnode, path string) {
			stats["nodes"]++
			name := fmt.Sprintf("table:%s:%d:%s", rn, p.Idx, p.Kind)
			if p.Kind != a.Kind {
				add(name, false, fmt.Sprintf("node %s: grammar.peg has %s, the table has %s", path, p.Kind, a.Kind))
				return
			}
			var diffs []string
			for _, k := range []string{"name", "label", "val", "want", "ignoreCase", "inverted", "chars", "ranges", "classes"} {
				pv, pok := p.Attr[k]
				av, aok := a.Attr[k]
				if !pok && !aok {
					continue
				}
				if k == "ignoreCase" || k == "inverted" {
					if pv == "" {
						pv = "false"
					}
					if av == "" {
						av = "false"
					}
				}
				if pv != av {
					diffs = append(diffs, fmt.Sprintf("%s: grammar.peg %q, table %q", k, pv, av))
				}
			}
			if p.Kind == "actionExpr" || p.Kind == "andCodeExpr" || p.Kind == "notCodeExpr" {
				want := fmt.Sprintf("callon%s%d", rn, p.Idx)
				if a.Attr["run"] != want {
					diffs = append(diffs, fmt.Sprintf("run: expected %s, table has %s", want, a.Attr["run"]))
				}
				usedFuncs[fmt.Sprintf("on%s%d", rn, p.Idx)] = true
				stats["code_blocks"]++
				// code
				fn := funcs[fmt.Sprintf("on%s%d", rn, p.Idx)]
				tr := funcs[want]
				if fn == nil || tr == nil {
					add(fmt.Sprintf("action:%s%d:exists", rn, p.Idx), false, "action function or trampoline missing in grammar.go")
				} else {
					// parameters
					var params []string
					for _, f := range fn.Type.Params.List {
						for _, nm := range f.Names {
							params = append(params, nm.Name)
						}
					}
					add(fmt.Sprintf("action:%s%d:params", rn, p.Idx), strings.Join(params, ",") == strings.Join(p.Lbls, ","),
						fmt.Sprintf("parameters %v, labels in scope %v", params, p.Lbls))
					// body
					pf, perr := parser.ParseFile(token.NewFileSet(), "", "package p\nfunc _() {\n"+p.Code+"\n}", 0)
					if perr != nil {
						add(fmt.Sprintf("action:%s%d:body", rn, p.Idx), false, "code block of grammar.peg does not parse: "+perr.Error())
					} else {
						want := renderBody(token.NewFileSet(), pf.Decls[0].(*ast.FuncDecl).Body)
						got := renderBody(fset, fn.Body)
						add(fmt.Sprintf("action:%s%d:body", rn, p.Idx), want == got, fmt.Sprintf("code differs:\n  grammar.peg: %s\n  grammar.go:  %s", want, got))
					}
					// trampoline: return p.cur.onX(stack["l1"], ...)
					var args []string
					ast.Inspect(tr.Body, func(n ast.Node) bool {
						if c, ok := n.(*ast.CallExpr); ok {
							if se, ok := c.Fun.(*ast.SelectorExpr); ok && se.Sel.Name == fn.Name.Name {
								for _, a := range c.Args {
									if ix, ok := a.(*ast.IndexExpr); ok {
										args = append(args, litString(ix.Index))
									} else {
										args = append(args, "?")
									}
								}
							}
						}
						return true
					})
					add(fmt.Sprintf("action:%s%d:trampoline", rn, p.Idx), strings.Join(args, ",") == strings.Join(p.Lbls, ","),
						fmt.Sprintf("trampoline passes %v, labels %v", args, p.Lbls))
				}
			}
			if len(p.Kids) != len(a.Kids) {
				diffs = append(diffs, fmt.Sprintf("%d sub-expressions in grammar.peg, %d in the table", len(p.Kids), len(a.Kids)))
			}
			add(name, len(diffs) == 0, fmt.Sprintf("node %s: %s", path, strings.Join(diffs, "; ")))
			for i := 0; i < len(p.Kids) && i < len(a.Kids); i++ {
				cmp(p.Kids[i], a.Kids[i], fmt.Sprintf("%s/%d", path, i))
			}
		}
		if len(ar.Kids) != 1 || len(pr.Kids) != 1 {
			add("table:"+rn+":shape", false, "rule has no single expression")
			continue
		}
		cmp(pr.Kids[0], ar.Kids[0], rn)
	}
	// no stray on*/callon* functions
	var stray []string
	for name := range funcs {
		if strings.HasPrefix(name, "on") && len(name) > 2 && unicode.IsUpper(rune(name[2])) && !usedFuncs[name] {
			stray = append(stray, name)
		}
	}
	sort.Strings(stray)
	add("action:no-stray-functions", len(stray) == 0, "action functions without a code block in grammar.peg: "+strings.Join(stray, ", "))
	return findings, stats, nil
}
