package main

import (
	"fmt"
	"go/types"
	"strings"

	"golang.org/x/tools/go/ssa"
)

// Syntactic frame analysis on SSA (DESIGN §4.8): decides, per store and per
// call, whether the written memory is fresh in this activation or covered by
// the function's assigns clause. Decided by bxv itself (no solver).

// rootOf follows FieldAddr / IndexAddr chains to the base pointer.
func rootOf(a ssa.Value) ssa.Value {
	for {
		switch x := a.(type) {
		case *ssa.FieldAddr:
			a = x.X
		case *ssa.IndexAddr:
			if _, ok := x.X.Type().Underlying().(*types.Pointer); ok {
				a = x.X
			} else {
				return x.X // slice: the slice value is the root
			}
		default:
			return a
		}
	}
}

// isFreshRoot: memory allocated by this activation.
func (V *Verifier) isFreshRoot(v ssa.Value, seen map[ssa.Value]bool) bool {
	if seen[v] {
		return true
	}
	seen[v] = true
	switch x := v.(type) {
	case *ssa.Alloc:
		return true
	case *ssa.MakeSlice, *ssa.MakeMap:
		return true
	case *ssa.Slice:
		return V.isFreshRoot(rootOf(x.X), seen)
	case *ssa.Phi:
		for _, e := range x.Edges {
			if c, ok := e.(*ssa.Const); ok && c.Value == nil {
				continue
			}
			if !V.isFreshRoot(rootOf(e), seen) {
				return false
			}
		}
		return true
	case *ssa.Call:
		if b, ok := x.Call.Value.(*ssa.Builtin); ok && b.Name() == "append" {
			// append result: fresh if its first argument is fresh or nil
			a0 := x.Call.Args[0]
			if c, ok := a0.(*ssa.Const); ok && c.Value == nil {
				return true
			}
			return V.isFreshRoot(rootOf(a0), seen)
		}
		key := calleeKey(&x.Call)
		if c := V.CS.ByKey[key]; c != nil && c.Fresh {
			return true
		}
	}
	return false
}

type frameFinding struct {
	name string
	ok   bool
	note string
	pos  ssa.Instruction
}

// frameCheck checks every store / mutating call of fn against its assigns.
func (V *Verifier) frameCheck(fn *ssa.Function) []frameFinding {
	key := funcKey(fn)
	con := V.CS.ByKey[key]
	var out []frameFinding
	allowed := map[string]bool{}
	located := map[string]string{}
	star := con == nil || !con.HasAssigns
	if con != nil {
		for _, a := range con.Assigns {
			if a == "*" {
				star = true
			}
			if i := strings.Index(a, "@"); i >= 0 {
				located[a[:i]] = a[i+1:]
			} else {
				allowed[a] = true
			}
		}
	}
	paramName := func(p *ssa.Parameter) string {
		if con == nil {
			return ""
		}
		for i, q := range fn.Params {
			if q == p && i < len(con.Params) {
				return con.Params[i]
			}
		}
		return ""
	}
	e := &fnEnc{V: V, U: V.U, fn: fn}
	n := 0
	for _, b := range fn.Blocks {
		for _, in := range b.Instrs {
			switch in := in.(type) {
			case *ssa.Store:
				n++
				root := rootOf(in.Addr)
				name := fmt.Sprintf("store@%d", n)
				if V.isFreshRoot(root, map[ssa.Value]bool{}) {
					out = append(out, frameFinding{name, true, "target is fresh in this activation", in})
					continue
				}
				keys := e.addrKeys(in.Addr)
				ok := star
				why := ""
				if !ok {
					ok = true
					for _, k := range keys {
						if allowed[k] {
							continue
						}
						if loc, has := located[k]; has {
							if p, isP := root.(*ssa.Parameter); isP && locMentions(loc, paramName(p)) {
								continue
							}
						}
						ok = false
						why = "store to " + k + " is outside the assigns clause"
					}
				}
				out = append(out, frameFinding{name, ok, why, in})
			case *ssa.MapUpdate:
				n++
				name := fmt.Sprintf("mapupdate@%d", n)
				ok := star || V.isFreshRoot(rootOf(in.Map), map[ssa.Value]bool{})
				if ld, isLoad := in.Map.(*ssa.UnOp); !ok && isLoad {
					for _, k := range e.addrKeys(ld.X) {
						if allowed[k] {
							ok = true
						}
						if _, has := located[k]; has {
							ok = true
						}
					}
				}
				out = append(out, frameFinding{name, ok, "map update of a map not created by this activation", in})
			case *ssa.Send, *ssa.Go:
				n++
				out = append(out, frameFinding{fmt.Sprintf("concurrency@%d", n), star, "go/send statement", in})
			case ssa.CallInstruction:
				cc := in.Common()
				ck := calleeKey(cc)
				if strings.HasPrefix(ck, "builtin.") {
					continue
				}
				var cons []*Contract
				var ctors []*fnCtor
				if ck != "" {
					cons = append(cons, V.CS.ByKey[ck])
				} else {
					for _, c := range V.candidates(cc.Signature()) {
						cons = append(cons, V.CS.ByKey[c.Key])
						ctors = append(ctors, c)
					}
				}
				n++
				name := fmt.Sprintf("call:%s@%d", shortKey(ck), n)
				if star {
					out = append(out, frameFinding{name, true, "", in})
					continue
				}
				ok := true
				why := ""
				for _, cn := range cons {
					if cn == nil {
						callee := cc.StaticCallee()
						if callee != nil && V.P.repoPkg(callee) != nil {
							// no contract: the zero-annotation write-effect analysis says which
							// writes of the callee (and its callees) reach memory it did not
							// allocate itself; none = nothing visible to the caller changes
							var cargs []ssa.Value
							if cc.IsInvoke() {
								cargs = append(cargs, cc.Value)
							}
							cargs = append(cargs, cc.Args...)
							for _, ef := range sortedEffects(V.effects().eff[callee]) {
								// a write through parameter i of the callee is a write through the
								// caller's argument i: fine if that memory is the caller's own, or if
								// the caller's assigns clause covers the same thing through the
								// parameter it passes on
								covered := false
								if ef.root.kind == "param" && ef.root.idx < len(cargs) {
									ar := rootOf(cargs[ef.root.idx])
									if V.isFreshRoot(ar, map[ssa.Value]bool{}) {
										covered = true
									} else if cp, isP := ar.(*ssa.Parameter); isP {
										var keys []string
										if strings.HasPrefix(ef.what, "store to ") {
											keys = []string{strings.TrimPrefix(ef.what, "store to ")}
										} else if strings.HasPrefix(ef.what, "mutated by ") {
											if xc := V.CS.ByKey[strings.TrimPrefix(ef.what, "mutated by ")]; xc != nil {
												keys = stripLoc(xc.Assigns)
											}
										}
										covered = len(keys) > 0
										for _, k := range keys {
											if allowed[k] {
												continue
											}
											if loc, has := located[k]; has && locMentions(loc, paramName(cp)) {
												continue
											}
											covered = false
										}
									}
								}
								if !covered {
									ok, why = false, fmt.Sprintf("callee %s has no contract and may write memory it did not allocate: %s %s", ck, ef.root.String(), ef.what)
									break
								}
							}
						} else if ck != "" {
							ok, why = false, "external callee "+ck+" has no contract"
						}
						continue
					}
					if !cn.HasAssigns {
						if cn.External {
							continue
						}
						ok, why = false, "callee "+cn.Key+" has no assigns clause"
						continue
					}
					for _, a := range cn.Assigns {
						if a == "*" {
							ok, why = false, "callee "+cn.Key+" assigns *"
							continue
						}
						k, loc := a, ""
						if i := strings.Index(a, "@"); i >= 0 {
							k, loc = a[:i], a[i+1:]
						}
						if allowed[k] {
							continue
						}
						if loc != "" {
							// located at a callee parameter: find the argument
							var args []ssa.Value
							if cc.IsInvoke() {
								args = append(args, cc.Value)
							}
							args = append(args, cc.Args...)
							matched := false
							// substitute the callee's parameter names in the location by the
							// caller-side paths of the arguments and compare with the caller's
							// own located assigns (e.g. callee "p.errs" with p := caller's p)
							subst := loc
							for i, pn := range cn.Params {
								if i < len(args) {
									if ap := pathOf(args[i], paramName); ap != "" {
										subst = replaceWord(subst, pn, ap)
									}
								}
							}
							if cl, has := located[k]; has && cl == subst {
								matched = true
							}
							for i, pn := range cn.Params {
								if locMentions(loc, pn) && i < len(args) {
									r := rootOf(args[i])
									if V.isFreshRoot(r, map[ssa.Value]bool{}) {
										matched = true
									} else if p, isP := r.(*ssa.Parameter); isP && located[k] != "" && locMentions(located[k], paramName(p)) {
										matched = true
									}
								}
							}
							if matched {
								continue
							}
						}
						ok, why = false, "callee "+cn.Key+" assigns "+a+" which is outside the caller's assigns clause"
					}
				}
				out = append(out, frameFinding{name, ok, why, in})
			}
		}
	}
	return out
}

// locMentions: does the location expression mention the parameter name as a whole word?
func locMentions(loc, name string) bool {
	for i := 0; i+len(name) <= len(loc); i++ {
		if loc[i:i+len(name)] != name {
			continue
		}
		before := i == 0 || !isWordByte(loc[i-1])
		after := i+len(name) == len(loc) || !isWordByte(loc[i+len(name)])
		if before && after {
			return true
		}
	}
	return false
}

func isWordByte(b byte) bool {
	return b == '_' || b >= 'a' && b <= 'z' || b >= 'A' && b <= 'Z' || b >= '0' && b <= '9'
}

// pathOf renders an SSA value as a contract-level path over the caller's
// parameters ("p", "p.errs"), looking through loads and field addresses.
func pathOf(v ssa.Value, paramName func(*ssa.Parameter) string) string {
	switch x := v.(type) {
	case *ssa.Parameter:
		return paramName(x)
	case *ssa.UnOp:
		if x.Op.String() == "*" {
			return pathOf(x.X, paramName)
		}
	case *ssa.FieldAddr:
		b := pathOf(x.X, paramName)
		if b == "" {
			return ""
		}
		st := x.X.Type().Underlying().(*types.Pointer).Elem().Underlying().(*types.Struct)
		return b + "." + st.Field(x.Field).Name()
	}
	return ""
}

func replaceWord(s, word, by string) string {
	var b strings.Builder
	for i := 0; i < len(s); {
		if strings.HasPrefix(s[i:], word) && (i == 0 || !isWordByte(s[i-1])) && (i+len(word) == len(s) || !isWordByte(s[i+len(word)])) {
			b.WriteString(by)
			i += len(word)
			continue
		}
		b.WriteByte(s[i])
		i++
	}
	return b.String()
}
