package main

import (
	"fmt"
	"go/token"
	"go/types"
	"os"
	"sort"
	"strings"

	"golang.org/x/tools/go/packages"
	"golang.org/x/tools/go/ssa"
	"golang.org/x/tools/go/ssa/ssautil"
)

const (
	bexprPath   = "github.com/hashicorp/go-bexpr"
	grammarPath = "github.com/hashicorp/go-bexpr/grammar"
)

// Program is the loaded /repo: typed syntax + SSA for the two packages under
// verification.
type Program struct {
	RepoDir string
	Fset    *token.FileSet
	Pkgs    []*packages.Package
	Prog    *ssa.Program
	Bexpr   *ssa.Package
	Grammar *ssa.Package
	// funcs by short key ("bexpr.doMatchIn", "grammar.parser.parse",
	// "bexpr.WithTagName$1").
	Funcs map[string]*ssa.Function
}

func repoDir() string {
	if d := os.Getenv("BXV_REPO"); d != "" {
		return d
	}
	return "/repo"
}

func loadProgram(dir string) (*Program, error) {
	cfg := &packages.Config{
		Mode:       packages.LoadAllSyntax,
		Dir:        dir,
		BuildFlags: []string{"-tags=verif"},
		Env: append(os.Environ(), "GOFLAGS=-mod=mod", "GOPROXY=off", "GOSUMDB=off",
			"GOTOOLCHAIN=local"),
		Tests: false,
	}
	pkgs, err := packages.Load(cfg, bexprPath, grammarPath)
	if err != nil {
		return nil, err
	}
	var errs []string
	packages.Visit(pkgs, nil, func(p *packages.Package) {
		if p.PkgPath == bexprPath || p.PkgPath == grammarPath {
			for _, e := range p.Errors {
				errs = append(errs, e.Error())
			}
		}
	})
	if len(errs) > 0 {
		return nil, fmt.Errorf("load errors: %s", strings.Join(errs, "; "))
	}
	prog, spkgs := ssautil.AllPackages(pkgs, ssa.InstantiateGenerics|ssa.GlobalDebug)
	prog.Build()
	P := &Program{RepoDir: dir, Pkgs: pkgs, Prog: prog, Funcs: map[string]*ssa.Function{}}
	for i, p := range pkgs {
		if P.Fset == nil {
			P.Fset = p.Fset
		}
		switch p.PkgPath {
		case bexprPath:
			P.Bexpr = spkgs[i]
		case grammarPath:
			P.Grammar = spkgs[i]
		}
	}
	if P.Bexpr == nil || P.Grammar == nil {
		return nil, fmt.Errorf("packages not found")
	}
	for _, sp := range []*ssa.Package{P.Bexpr, P.Grammar} {
		for _, m := range sp.Members {
			switch m := m.(type) {
			case *ssa.Function:
				P.addFunc(m)
			case *ssa.Type:
				T := m.Type()
				for _, t := range []types.Type{T, types.NewPointer(T)} {
					ms := prog.MethodSets.MethodSet(t)
					for i := 0; i < ms.Len(); i++ {
						if f := prog.MethodValue(ms.At(i)); f != nil && f.Pkg == sp && f.Synthetic == "" {
							P.addFunc(f)
						}
					}
				}
			}
		}
	}
	// instantiations of the repo's generic functions are repo code too: they
	// have no package of their own in go/ssa, so they are found at their call
	// sites and entered under the instance name (pkg.f[T])
	for changed := true; changed; {
		changed = false
		for _, k := range sortedFuncKeys(P.Funcs) {
			for _, b := range P.Funcs[k].Blocks {
				for _, in := range b.Instrs {
					var callee *ssa.Function
					switch in := in.(type) {
					case ssa.CallInstruction:
						callee = in.Common().StaticCallee()
					case *ssa.MakeClosure:
						callee, _ = in.Fn.(*ssa.Function)
					}
					if callee == nil || callee.Pkg != nil || callee.Parent() != nil || P.repoPkg(callee) == nil || len(callee.Blocks) == 0 {
						continue
					}
					if _, ok := P.Funcs[funcKey(callee)]; !ok {
						P.addFunc(callee)
						changed = true
					}
				}
			}
		}
	}
	return P, nil
}

// repoPkg: the package of /repo a function belongs to (instantiations of
// generic functions belong to the package of their origin), or nil.
func (P *Program) repoPkg(f *ssa.Function) *ssa.Package {
	for f != nil && f.Parent() != nil {
		f = f.Parent()
	}
	if f == nil {
		return nil
	}
	if f.Pkg != nil {
		if f.Pkg == P.Bexpr || f.Pkg == P.Grammar {
			return f.Pkg
		}
		return nil
	}
	if o := f.Origin(); o != nil && o != f {
		return P.repoPkg(o)
	}
	return nil
}

// typesPkg: the types.Package whose scope names in contracts of f resolve in.
func (P *Program) typesPkg(f *ssa.Function) *types.Package {
	if sp := P.repoPkg(f); sp != nil {
		return sp.Pkg
	}
	if f != nil && f.Pkg != nil {
		return f.Pkg.Pkg
	}
	return P.Bexpr.Pkg
}

func (P *Program) addFunc(f *ssa.Function) {
	k := funcKey(f)
	if _, ok := P.Funcs[k]; ok {
		return
	}
	P.Funcs[k] = f
	for _, a := range f.AnonFuncs {
		P.addFunc(a)
	}
}

// funcKey gives the short, stable key used by contracts:
// pkg.Func, pkg.Type.Method, pkg.Func$1.
func funcKey(f *ssa.Function) string {
	if f.Parent() != nil {
		// closure: parentKey$N
		name := f.Name() // e.g. WithTagName$1
		if i := strings.LastIndex(name, "$"); i >= 0 {
			return funcKey(f.Parent()) + name[i:]
		}
		return funcKey(f.Parent()) + "$" + name
	}
	pkg := ""
	name := f.Name()
	if strings.ContainsAny(name, "[], ") {
		// instantiation f[T1,T2]: keep the key a legal SMT symbol
		name = strings.NewReplacer("[", "<", "]", ">", ",", "&", " ", "").Replace(name)
	}
	if f.Pkg != nil {
		pkg = f.Pkg.Pkg.Name()
	} else if f.Object() != nil && f.Object().Pkg() != nil {
		pkg = f.Object().Pkg().Name()
	}
	if recv := f.Signature.Recv(); recv != nil {
		t := recv.Type()
		if p, ok := t.(*types.Pointer); ok {
			t = p.Elem()
		}
		if n, ok := t.(*types.Named); ok {
			if n.Obj().Pkg() != nil {
				pkg = n.Obj().Pkg().Name()
			}
			return pkg + "." + n.Obj().Name() + "." + name
		}
		return pkg + "." + t.String() + "." + name
	}
	return pkg + "." + name
}

// calleeKey gives the contract key of a call.
func calleeKey(c *ssa.CallCommon) string {
	if c.IsInvoke() {
		t := c.Value.Type()
		if n, ok := t.(*types.Named); ok {
			pkg := ""
			if n.Obj().Pkg() != nil {
				pkg = n.Obj().Pkg().Name() + "."
			}
			return pkg + n.Obj().Name() + "." + c.Method.Name()
		}
		return "iface." + c.Method.Name()
	}
	if f := c.StaticCallee(); f != nil {
		return funcKey(f)
	}
	if b, ok := c.Value.(*ssa.Builtin); ok {
		return "builtin." + b.Name()
	}
	return ""
}

func sortedFuncKeys(m map[string]*ssa.Function) []string {
	ks := make([]string, 0, len(m))
	for k := range m {
		ks = append(ks, k)
	}
	sort.Strings(ks)
	return ks
}

// specDir is where the logical model and the external contracts live;
// BXV_SPEC_DIR redirects it (development and selftests only).
func specDir() string {
	if d := os.Getenv("BXV_SPEC_DIR"); d != "" {
		return d
	}
	return "/verif/spec"
}
