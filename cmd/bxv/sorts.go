package main

import (
	"fmt"
	"go/constant"
	"go/token"
	"go/types"
	"math/big"
	"regexp"
	"sort"
	"strings"

	"golang.org/x/tools/go/ssa"
)

// Term is an SMT term with its sort and (when known) Go type.
type Term struct {
	S    string
	Sort string
	T    types.Type
}

// Universe collects everything whose declaration is generated: sorts for Go
// types, struct datatypes, slice sorts, type tags, string literals, heaps,
// function-value constructors. One Universe per generated query context
// (per function), so each query declares only what it needs... but to keep
// symbol meaning stable across a function and its callees' contracts we use
// one Universe per run and emit all of it (it is small).
type Universe struct {
	priv string // name of the local variable whose private heaps are being addressed ("" = shared heaps)
	P        *Program
	prelude  []*SX
	Sigs     map[string]*Sig // all known function symbols
	bundles  map[string][]string
	slices   map[string]string      // sort name -> element sort
	sliceT   map[string]types.Type  // sort name -> element Go type (first seen)
	maps     map[string][2]string   // sort name -> key, value sort
	structs  map[string]*structInfo // sort name -> info
	structO  []string               // declaration order
	tags     map[string]int         // Go type string -> tag id
	tagT     map[string]types.Type
	tagOrder []string
	strlits  map[string]string // literal -> symbol
	strOrder []string
	heaps    map[string]*heapInfo // heap key -> info
	heapO    []string
	fnCtors  map[string]*fnCtor // func key -> constructor
	fnOrder  []string
	globals  map[string]string // global name -> sort
	extra    []string          // extra declarations (late)
	emit     func(string)      // sink for ground axiom instances (set by the active encoder)
	impls    map[string]types.Type
}

type structInfo struct {
	Sort   string
	T      *types.Struct
	Named  *types.Named
	Fields []*types.Var
	FSorts []string
}

type heapInfo struct {
	Key  string // "grammar.MatchValue.Converted" or "deref.Any"
	Sym  string // SMT base symbol "H.grammar.MatchValue.Converted"
	Elem string // element sort
	Var  *types.Var
}

type fnCtor struct {
	Key   string
	Sym   string
	Fn    *ssa.Function
	Caps  []string // capture sorts
	CapTs []types.Type
	ByVal []bool // capture i is modelled by value (the captured cell is never written after creation)
}

func newUniverse(P *Program) *Universe {
	U := &Universe{P: P, Sigs: map[string]*Sig{}, bundles: map[string][]string{},
		slices: map[string]string{}, sliceT: map[string]types.Type{}, maps: map[string][2]string{},
		structs: map[string]*structInfo{}, tags: map[string]int{}, tagT: map[string]types.Type{},
		strlits: map[string]string{}, heaps: map[string]*heapInfo{}, fnCtors: map[string]*fnCtor{},
		globals: map[string]string{}, impls: map[string]types.Type{}}
	U.sliceSort(types.Typ[types.Byte])
	U.Sigs["s.ofbytes"] = &Sig{Name: "s.ofbytes", Args: []string{"Sl.Int"}, Res: "Str"}
	U.Sigs["s.tobytes"] = &Sig{Name: "s.tobytes", Args: []string{"Str"}, Res: "Sl.Int"}
	return U
}

func pkgShort(p *types.Package) string {
	if p == nil {
		return ""
	}
	return p.Name()
}

func namedKey(n *types.Named) string {
	if n.Obj().Pkg() == nil {
		return n.Obj().Name()
	}
	return pkgShort(n.Obj().Pkg()) + "." + n.Obj().Name()
}

// sortOf maps a Go type to an SMT sort, registering generated sorts.
func (U *Universe) sortOf(t types.Type) string {
	switch t := t.(type) {
	case *types.Alias:
		return U.sortOf(types.Unalias(t))
	case *types.Named:
		k := namedKey(t)
		switch k {
		case "reflect.Value":
			return "RV"
		case "reflect.Type":
			return "Type"
		case "reflect.Kind":
			return "Int"
		}
		if st, ok := t.Underlying().(*types.Struct); ok {
			return U.structSort("S."+k, st, t)
		}
		return U.sortOf(t.Underlying())
	case *types.Basic:
		switch {
		case t.Info()&types.IsBoolean != 0:
			return "Bool"
		case t.Info()&types.IsInteger != 0:
			return "Int"
		case t.Kind() == types.Float32:
			return "F32"
		case t.Info()&types.IsFloat != 0:
			return "F64"
		case t.Info()&types.IsString != 0:
			return "Str"
		case t.Kind() == types.UnsafePointer:
			return "Int"
		case t.Kind() == types.UntypedNil:
			return "Any"
		}
		return "Int"
	case *types.Pointer:
		return "Int"
	case *types.Interface:
		return "Any"
	case *types.Signature:
		return "Fn"
	case *types.Slice:
		return U.sliceSort(t.Elem())
	case *types.Array:
		return U.sliceSort(t.Elem())
	case *types.Map:
		k, v := U.sortOf(t.Key()), U.sortOf(t.Elem())
		n := "Map." + sortTag(k) + "." + sortTag(v)
		U.maps[n] = [2]string{k, v}
		return n
	case *types.Struct:
		return U.structSort(fmt.Sprintf("S.anon%d", len(U.structs)), t, nil)
	case *types.Chan:
		return "Int"
	case *types.Tuple:
		return "Tuple"
	}
	return "Int"
}

func sortTag(s string) string {
	return strings.NewReplacer(" ", "_", "(", "", ")", "").Replace(s)
}

func (U *Universe) sliceSort(elem types.Type) string {
	es := U.sortOf(elem)
	n := "Sl." + sortTag(es)
	if _, ok := U.slices[n]; !ok {
		U.slices[n] = es
		U.sliceT[n] = elem
	}
	return n
}

func (U *Universe) structSort(name string, st *types.Struct, named *types.Named) string {
	if named == nil {
		for k, si := range U.structs {
			if types.Identical(si.T, st) && si.Named == nil {
				return k
			}
		}
	}
	if _, ok := U.structs[name]; ok {
		return name
	}
	si := &structInfo{Sort: name, T: st, Named: named}
	U.structs[name] = si // register first (recursion through pointers is Int anyway)
	for i := 0; i < st.NumFields(); i++ {
		f := st.Field(i)
		si.Fields = append(si.Fields, f)
		si.FSorts = append(si.FSorts, U.sortOf(f.Type()))
	}
	U.structO = append(U.structO, name)
	return name
}

func (U *Universe) structOfSort(s string) *structInfo { return U.structs[s] }

func (si *structInfo) fieldIndex(name string) int {
	for i, f := range si.Fields {
		if f.Name() == name {
			return i
		}
	}
	return -1
}

func (si *structInfo) sel(i int) string {
	if si.Fields[i].Name() == "_" {
		// blank fields (padding, noCopy markers in library structs): selectors must be distinct
		return fmt.Sprintf("%s._blank%d", si.Sort, i)
	}
	return si.Sort + "." + si.Fields[i].Name()
}
func (si *structInfo) ctor() string     { return "mk." + si.Sort }

// tagOf returns the type tag (a positive Int) of a concrete Go type.
func (U *Universe) tagOf(t types.Type) int {
	t = types.Unalias(t)
	k := normTypeKey(types.TypeString(t, func(p *types.Package) string { return p.Name() }))
	if id, ok := U.tags[k]; ok {
		return id
	}
	id := len(U.tags) + 1
	U.tags[k] = id
	U.tagT[k] = t
	U.tagOrder = append(U.tagOrder, k)
	U.sortOf(t)
	return id
}

func tagSym(k string) string {
	var b strings.Builder
	b.WriteString("tag.")
	for _, r := range k {
		switch {
		case r >= 'a' && r <= 'z', r >= 'A' && r <= 'Z', r >= '0' && r <= '9', strings.ContainsRune("~!$%^&*_-+=<>.?/", r):
			b.WriteRune(r)
		case r == '[' || r == '{' || r == '(':
			b.WriteRune('<')
		case r == ']' || r == '}' || r == ')':
			b.WriteRune('>')
		case r == ' ':
		default:
			b.WriteRune('_')
		}
	}
	return b.String()
}

func (U *Universe) typeKey(t types.Type) string {
	return normTypeKey(types.TypeString(types.Unalias(t), func(p *types.Package) string { return p.Name() }))
}

// normTypeKey: interface{} and any are the same type
func normTypeKey(k string) string {
	k = strings.ReplaceAll(k, "interface {}", "any")
	k = strings.ReplaceAll(k, "interface{}", "any")
	// byte and rune are aliases: identical types must get identical tags
	k = aliasByte.ReplaceAllString(k, "${1}uint8")
	k = aliasRune.ReplaceAllString(k, "${1}int32")
	return k
}

var (
	aliasByte = regexp.MustCompile(`(^|[^\w.])byte\b`)
	aliasRune = regexp.MustCompile(`(^|[^\w.])rune\b`)
)

func (U *Universe) boxSym(t types.Type) string {
	U.tagOf(t)
	return "box." + strings.TrimPrefix(tagSym(U.typeKey(t)), "tag.")
}
func (U *Universe) unboxSym(t types.Type) string {
	U.tagOf(t)
	return "unbox." + strings.TrimPrefix(tagSym(U.typeKey(t)), "tag.")
}

func (U *Universe) strLit(s string) string {
	if s == "" {
		return "s.empty"
	}
	if sym, ok := U.strlits[s]; ok {
		return sym
	}
	sym := fmt.Sprintf("s.lit%d", len(U.strlits))
	U.strlits[s] = sym
	U.strOrder = append(U.strOrder, s)
	return sym
}

// heap for a field of a pointer-accessed struct.
func (U *Universe) fieldHeap(owner *types.Named, f *types.Var) *heapInfo {
	key := namedKey(owner) + "." + f.Name()
	if h, ok := U.heaps[key]; ok {
		return h
	}
	h := &heapInfo{Key: key, Sym: "H." + key, Elem: U.sortOf(f.Type()), Var: f}
	U.heaps[key] = h
	U.heapO = append(U.heapO, key)
	return h
}

func (U *Universe) anonFieldHeap(st *types.Struct, f *types.Var) *heapInfo {
	key := "anon." + U.sortOf(st) + "." + f.Name()
	if h, ok := U.heaps[key]; ok {
		return h
	}
	h := &heapInfo{Key: key, Sym: "H." + key, Elem: U.sortOf(f.Type()), Var: f}
	U.heaps[key] = h
	U.heapO = append(U.heapO, key)
	return h
}

// heap for *T where T is not a struct.
func (U *Universe) derefHeap(elem types.Type) *heapInfo {
	es := U.sortOf(elem)
	key := "deref." + sortTag(es)
	if h, ok := U.heaps[key]; ok {
		return U.privOf(h)
	}
	h := &heapInfo{Key: key, Sym: "H." + key, Elem: es}
	U.heaps[key] = h
	U.heapO = append(U.heapO, key)
	return U.privOf(h)
}

func (U *Universe) globalHeap(g *ssa.Global) *heapInfo {
	key := "global." + pkgShort(g.Pkg.Pkg) + "." + g.Name()
	if h, ok := U.heaps[key]; ok {
		return h
	}
	elem := g.Type().(*types.Pointer).Elem()
	h := &heapInfo{Key: key, Sym: "G." + pkgShort(g.Pkg.Pkg) + "." + g.Name(), Elem: U.sortOf(elem)}
	U.heaps[key] = h
	U.heapO = append(U.heapO, key)
	return h
}

func (U *Universe) fnCtorOf(f *ssa.Function) *fnCtor {
	k := funcKey(f)
	if c, ok := U.fnCtors[k]; ok {
		return c
	}
	c := &fnCtor{Key: k, Sym: "fn." + k, Fn: f}
	for i, fv := range f.FreeVars {
		if captureByValue(f, i) {
			el := fv.Type().Underlying().(*types.Pointer).Elem()
			c.Caps = append(c.Caps, U.sortOf(el))
			c.CapTs = append(c.CapTs, el)
			c.ByVal = append(c.ByVal, true)
			continue
		}
		c.Caps = append(c.Caps, U.sortOf(fv.Type()))
		c.CapTs = append(c.CapTs, fv.Type())
		c.ByVal = append(c.ByVal, false)
	}
	U.fnCtors[k] = c
	U.fnOrder = append(U.fnOrder, k)
	U.Sigs[c.Sym] = &Sig{Name: c.Sym, Args: c.Caps, Res: "Fn"}
	for i, s := range c.Caps {
		U.Sigs[fmt.Sprintf("%s.c%d", c.Sym, i)] = &Sig{Name: fmt.Sprintf("%s.c%d", c.Sym, i), Args: []string{"Fn"}, Res: s}
	}
	return c
}

// zero value of a sort.
func (U *Universe) zero(sort string) string {
	switch sort {
	case "Int":
		return "0"
	case "Bool":
		return "false"
	case "Str":
		return "s.empty"
	case "Any":
		return "nilAny"
	case "Fn":
		return "fn.nil"
	case "RV":
		return "rv.zero"
	case "Type":
		return "ty.nil"
	case "F64":
		return "(_ +zero 11 53)"
	case "F32":
		return "(_ +zero 8 24)"
	}
	if strings.HasPrefix(sort, "Sl.") {
		return sort + ".nil"
	}
	if strings.HasPrefix(sort, "Map.") {
		return sort + ".nil"
	}
	if si, ok := U.structs[sort]; ok {
		if len(si.Fields) == 0 {
			return si.ctor()
		}
		parts := []string{si.ctor()}
		for _, fs := range si.FSorts {
			parts = append(parts, U.zero(fs))
		}
		return "(" + strings.Join(parts, " ") + ")"
	}
	return "0"
}

// intRange returns the SMT range fact for an integer Go type.
func intRange(t types.Type, x string) string {
	b, ok := types.Unalias(t).Underlying().(*types.Basic)
	if !ok || b.Info()&types.IsInteger == 0 {
		return ""
	}
	if n, ok := types.Unalias(t).(*types.Named); ok && namedKey(n) == "reflect.Kind" {
		return fmt.Sprintf("(and (<= 0 %s) (<= %s 26))", x, x)
	}
	lo, hi := intBounds(b)
	return fmt.Sprintf("(and (<= %s %s) (<= %s %s))", smtInt(lo), x, x, smtInt(hi))
}

func intBounds(b *types.Basic) (*big.Int, *big.Int) {
	pow := func(n uint) *big.Int { return new(big.Int).Lsh(big.NewInt(1), n) }
	sub1 := func(x *big.Int) *big.Int { return new(big.Int).Sub(x, big.NewInt(1)) }
	neg := func(x *big.Int) *big.Int { return new(big.Int).Neg(x) }
	switch b.Kind() {
	case types.Int8:
		return neg(pow(7)), sub1(pow(7))
	case types.Int16:
		return neg(pow(15)), sub1(pow(15))
	case types.Int32, types.UntypedRune:
		return neg(pow(31)), sub1(pow(31))
	case types.Int, types.Int64, types.UntypedInt:
		return neg(pow(63)), sub1(pow(63))
	case types.Uint8:
		return big.NewInt(0), sub1(pow(8))
	case types.Uint16:
		return big.NewInt(0), sub1(pow(16))
	case types.Uint32:
		return big.NewInt(0), sub1(pow(32))
	case types.Uint, types.Uint64, types.Uintptr:
		return big.NewInt(0), sub1(pow(64))
	}
	return neg(pow(63)), sub1(pow(63))
}

func smtInt(x *big.Int) string {
	if x.Sign() < 0 {
		return "(- " + new(big.Int).Neg(x).String() + ")"
	}
	return x.String()
}

func smtIntStr(s string) string {
	if strings.HasPrefix(s, "-") {
		return "(- " + s[1:] + ")"
	}
	return s
}

// constTerm translates an SSA constant.
func (U *Universe) constTerm(c *ssa.Const) Term {
	t := c.Type()
	sort := U.sortOf(t)
	if c.Value == nil {
		return Term{U.zero(sort), sort, t}
	}
	switch c.Value.Kind() {
	case constant.Bool:
		if constant.BoolVal(c.Value) {
			return Term{"true", "Bool", t}
		}
		return Term{"false", "Bool", t}
	case constant.String:
		return Term{U.strLit(constant.StringVal(c.Value)), "Str", t}
	case constant.Int:
		if sort == "F64" || sort == "F32" {
			return Term{fpLit(sort, c.Value), sort, t}
		}
		return Term{smtIntStr(c.Value.ExactString()), "Int", t}
	case constant.Float:
		if sort == "Int" {
			return Term{smtIntStr(constant.ToInt(c.Value).ExactString()), "Int", t}
		}
		return Term{fpLit(sort, c.Value), sort, t}
	}
	return Term{U.zero(sort), sort, t}
}

func fpLit(sort string, v constant.Value) string {
	eb, sb := 11, 53
	if sort == "F32" {
		eb, sb = 8, 24
	}
	r := constant.ToFloat(v)
	num, _ := new(big.Int).SetString(constant.Num(r).ExactString(), 10)
	den, _ := new(big.Int).SetString(constant.Denom(r).ExactString(), 10)
	if num == nil || den == nil {
		return fmt.Sprintf("(_ +zero %d %d)", eb, sb)
	}
	q := fmt.Sprintf("(/ %s.0 %s.0)", num.Abs(num).String(), den.String())
	if constant.Sign(v) < 0 {
		q = "(- " + q + ")"
	}
	return fmt.Sprintf("((_ to_fp %d %d) RNE %s)", eb, sb, q)
}

// ---------------------------------------------------------------------------
// Declarations

func (U *Universe) loadPrelude(files []string, read func(string) (string, error)) error {
	for _, f := range files {
		src, err := read(f)
		if err != nil {
			return err
		}
		cmds, err := parseSexprs(src)
		if err != nil {
			return fmt.Errorf("%s: %v", f, err)
		}
		U.prelude = append(U.prelude, cmds...)
	}
	return nil
}

// emitDecls produces the full declaration text: base prelude (phase "base"),
// generated declarations, spec prelude (phase "spec"). Prelude files are
// split by a marker command (echo "phase:spec").
func (U *Universe) emitDeclsWith(bundleDecls string) string {
	var b strings.Builder
	b.WriteString("(set-option :produce-models true)\n(set-logic ALL)\n")
	phase := "base"
	var spec []*SX
	for _, c := range U.prelude {
		if c.Head() == "echo" && len(c.List) == 2 && strings.Contains(c.List[1].Atom, "phase:spec") {
			phase = "spec"
			continue
		}
		if c.Head() == "echo" && len(c.List) == 2 && strings.Contains(c.List[1].Atom, "phase:base") {
			phase = "base"
			continue
		}
		if c.Head() == "echo" {
			continue
		}
		if phase == "base" {
			b.WriteString(c.String())
			b.WriteString("\n")
		} else {
			spec = append(spec, c)
		}
	}
	// generated: slice & map sorts first
	sl := sortedKeys(U.slices)
	for _, s := range sl {
		fmt.Fprintf(&b, "(declare-sort %s 0)\n", s)
	}
	for _, m := range sortedKeys2(U.maps) {
		fmt.Fprintf(&b, "(declare-sort %s 0)\n", m)
	}
	// Fn datatype
	b.WriteString("(declare-datatypes ((Fn 0)) ((\n  (fn.nil)\n  (fn.other (fn.other.id Int))\n")
	for _, k := range U.fnOrder {
		c := U.fnCtors[k]
		if len(c.Caps) == 0 {
			fmt.Fprintf(&b, "  (%s)\n", c.Sym)
		} else {
			fmt.Fprintf(&b, "  (%s", c.Sym)
			for i, s := range c.Caps {
				fmt.Fprintf(&b, " (%s.c%d %s)", c.Sym, i, s)
			}
			b.WriteString(")\n")
		}
	}
	b.WriteString(")))\n")
	// struct datatypes in dependency order
	done := map[string]bool{}
	var emitStruct func(n string)
	emitStruct = func(n string) {
		if done[n] {
			return
		}
		done[n] = true
		si := U.structs[n]
		for _, fs := range si.FSorts {
			if _, ok := U.structs[fs]; ok {
				emitStruct(fs)
			}
		}
		if len(si.Fields) == 0 {
			fmt.Fprintf(&b, "(declare-datatypes ((%s 0)) (((%s))))\n", n, si.ctor())
			return
		}
		fmt.Fprintf(&b, "(declare-datatypes ((%s 0)) (((%s", n, si.ctor())
		for i := range si.Fields {
			fmt.Fprintf(&b, " (%s %s)", si.sel(i), si.FSorts[i])
		}
		b.WriteString("))))\n")
	}
	so := append([]string(nil), U.structO...)
	sort.Strings(so)
	for _, n := range so {
		emitStruct(n)
	}
	// slice functions
	for _, s := range sl {
		e := U.slices[s]
		fmt.Fprintf(&b, "(declare-fun %[1]s.len (%[1]s) Int)\n(declare-fun %[1]s.at (%[1]s Int) %[2]s)\n", s, e)
		fmt.Fprintf(&b, "(declare-const %[1]s.nil %[1]s)\n(declare-const %[1]s.empty %[1]s)\n", s)
		fmt.Fprintf(&b, "(declare-fun %[1]s.snoc (%[1]s %[2]s) %[1]s)\n(declare-fun %[1]s.cat (%[1]s %[1]s) %[1]s)\n(declare-fun %[1]s.sub (%[1]s Int Int) %[1]s)\n", s, e)
		fmt.Fprintf(&b, "(assert (= %[1]s.nil %[1]s.empty))\n(assert (= (%[1]s.len %[1]s.empty) 0))\n", s)
		// sequence axioms (A-SEQ), with patterns
		fmt.Fprintf(&b, "(assert (forall ((x %[1]s) (v %[2]s)) (! (and (= (%[1]s.len (%[1]s.snoc x v)) (+ (%[1]s.len x) 1)) (= (%[1]s.at (%[1]s.snoc x v) (%[1]s.len x)) v)) :pattern ((%[1]s.snoc x v)))))\n", s, e)
		fmt.Fprintf(&b, "(assert (forall ((x %[1]s) (v %[2]s) (i Int)) (! (=> (and (<= 0 i) (< i (%[1]s.len x))) (= (%[1]s.at (%[1]s.snoc x v) i) (%[1]s.at x i))) :pattern ((%[1]s.at (%[1]s.snoc x v) i)))))\n", s, e)
		fmt.Fprintf(&b, "(assert (forall ((x %[1]s) (y %[1]s)) (! (= (%[1]s.len (%[1]s.cat x y)) (+ (%[1]s.len x) (%[1]s.len y))) :pattern ((%[1]s.cat x y)))))\n", s)
		fmt.Fprintf(&b, "(assert (forall ((x %[1]s) (y %[1]s) (i Int)) (! (=> (and (<= 0 i) (< i (+ (%[1]s.len x) (%[1]s.len y)))) (= (%[1]s.at (%[1]s.cat x y) i) (ite (< i (%[1]s.len x)) (%[1]s.at x i) (%[1]s.at y (- i (%[1]s.len x)))))) :pattern ((%[1]s.at (%[1]s.cat x y) i)))))\n", s)
		fmt.Fprintf(&b, "(assert (forall ((x %[1]s) (v %[2]s)) (! (= (%[1]s.cat x (%[1]s.snoc %[1]s.empty v)) (%[1]s.snoc x v)) :pattern ((%[1]s.cat x (%[1]s.snoc %[1]s.empty v))))))\n", s, e)
		fmt.Fprintf(&b, "(assert (forall ((x %[1]s)) (! (and (= (%[1]s.cat x %[1]s.empty) x) (= (%[1]s.cat x %[1]s.nil) x)) :pattern ((%[1]s.cat x %[1]s.empty)) :pattern ((%[1]s.cat x %[1]s.nil)))))\n", s)
		fmt.Fprintf(&b, "(assert (forall ((x %[1]s) (y %[1]s) (v %[2]s)) (! (= (%[1]s.cat x (%[1]s.snoc y v)) (%[1]s.snoc (%[1]s.cat x y) v)) :pattern ((%[1]s.cat x (%[1]s.snoc y v))))))\n", s, e)
		fmt.Fprintf(&b, "(assert (forall ((x %[1]s)) (! (= (%[1]s.cat %[1]s.empty x) x) :pattern ((%[1]s.cat %[1]s.empty x)))))\n", s)
		fmt.Fprintf(&b, "(assert (forall ((x %[1]s) (lo Int) (hi Int)) (! (=> (and (<= 0 lo) (<= lo hi) (<= hi (%[1]s.len x))) (= (%[1]s.len (%[1]s.sub x lo hi)) (- hi lo))) :pattern ((%[1]s.sub x lo hi)))))\n", s)
		fmt.Fprintf(&b, "(assert (forall ((x %[1]s) (lo Int) (hi Int) (i Int)) (! (=> (and (<= 0 lo) (<= lo hi) (<= hi (%[1]s.len x)) (<= 0 i) (< i (- hi lo))) (= (%[1]s.at (%[1]s.sub x lo hi) i) (%[1]s.at x (+ lo i)))) :pattern ((%[1]s.at (%[1]s.sub x lo hi) i)))))\n", s)
		fmt.Fprintf(&b, "(assert (forall ((x %[1]s) (hi Int)) (! (=> (= hi (%[1]s.len x)) (= (%[1]s.sub x 0 hi) x)) :pattern ((%[1]s.sub x 0 hi)))))\n", s)
		fmt.Fprintf(&b, "(assert (forall ((x %[1]s) (i Int)) (! (=> (and (<= 0 i) (< i (%[1]s.len x))) (= (%[1]s.sub x 0 (+ i 1)) (%[1]s.snoc (%[1]s.sub x 0 i) (%[1]s.at x i)))) :pattern ((%[1]s.sub x 0 (+ i 1))))))\n", s)
		fmt.Fprintf(&b, "(assert (forall ((x %[1]s) (hi Int)) (! (=> (= hi 0) (= (%[1]s.sub x 0 hi) %[1]s.empty)) :pattern ((%[1]s.sub x 0 hi)))))\n", s)
		U.Sigs[s+".len"] = &Sig{Name: s + ".len", Args: []string{s}, Res: "Int"}
		U.Sigs[s+".at"] = &Sig{Name: s + ".at", Args: []string{s, "Int"}, Res: e}
		U.Sigs[s+".nil"] = &Sig{Name: s + ".nil", Res: s}
		U.Sigs[s+".empty"] = &Sig{Name: s + ".empty", Res: s}
		U.Sigs[s+".snoc"] = &Sig{Name: s + ".snoc", Args: []string{s, e}, Res: s}
		U.Sigs[s+".cat"] = &Sig{Name: s + ".cat", Args: []string{s, s}, Res: s}
		U.Sigs[s+".sub"] = &Sig{Name: s + ".sub", Args: []string{s, "Int", "Int"}, Res: s}
	}
	for _, m := range sortedKeys2(U.maps) {
		fmt.Fprintf(&b, "(declare-const %[1]s.nil %[1]s)\n", m)
	}
	if _, ok := U.slices["Sl.Int"]; ok {
		b.WriteString("(declare-fun s.ofbytes (Sl.Int) Str)\n(declare-fun s.tobytes (Str) Sl.Int)\n")
		b.WriteString("(assert (forall ((x Str)) (! (and (= (s.ofbytes (s.tobytes x)) x) (= (Sl.Int.len (s.tobytes x)) (s.len x))) :pattern ((s.tobytes x)))))\n")
		b.WriteString("(assert (forall ((x Sl.Int)) (! (= (s.len (s.ofbytes x)) (Sl.Int.len x)) :pattern ((s.ofbytes x)))))\n")
	}
	// tags / boxes
	for _, k := range U.tagOrder {
		id := U.tags[k]
		t := U.tagT[k]
		srt := U.sortOf(t)
		ts := tagSym(k)
		base := strings.TrimPrefix(ts, "tag.")
		fmt.Fprintf(&b, "(define-fun %s () Int %d)\n", ts, id)
		fmt.Fprintf(&b, "(declare-fun box.%s (%s) Any)\n(declare-fun unbox.%s (Any) %s)\n", base, srt, base, srt)
		fmt.Fprintf(&b, "(assert (= (tagkind %s) %d))\n", ts, goKindOf(t))
		fmt.Fprintf(&b, "(assert (= (tagptrdepth %s) %d))\n", ts, ptrDepth(t))
	}
	fmt.Fprintf(&b, "(define-fun tag.max () Int %d)\n", len(U.tags))
	// impl predicates
	for _, ik := range sortedKeysT(U.impls) {
		it := U.impls[ik]
		iface, _ := it.Underlying().(*types.Interface)
		var ids []string
		for _, k := range U.tagOrder {
			if iface != nil && types.Implements(U.tagT[k], iface) {
				ids = append(ids, fmt.Sprintf("(= t %d)", U.tags[k]))
			}
		}
		body := "false"
		if len(ids) == 1 {
			body = ids[0]
		} else if len(ids) > 1 {
			body = "(or " + strings.Join(ids, " ") + ")"
		}
		// unknown (untagged) types may implement anything
		fmt.Fprintf(&b, "(declare-fun impl.other.%s (Int) Bool)\n", ik)
		fmt.Fprintf(&b, "(define-fun impl.%s ((t Int)) Bool (ite (and (<= 1 t) (<= t tag.max)) %s (and (> t tag.max) (impl.other.%s t))))\n", ik, body, ik)
	}
	// heaps are declared per function context (versions); here only sorts exist.
	for _, x := range U.extra {
		b.WriteString(x)
		b.WriteString("\n")
	}
	// character constants for the decomposition of literals (C19)
	{
		used := map[byte]bool{}
		for _, s := range U.strOrder {
			for i := 0; i < len(s); i++ {
				used[s[i]] = true
			}
		}
		for c := 0; c < 256; c++ {
			if used[byte(c)] {
				fmt.Fprintf(&b, "(declare-const s.ch%d Str)\n", c)
			}
		}
	}
	// string literals
	if len(U.strOrder) > 0 {
		for _, s := range U.strOrder {
			fmt.Fprintf(&b, "(declare-const %s Str) ; %q\n", U.strlits[s], truncate(s, 60))
			fmt.Fprintf(&b, "(assert (= (s.len %s) %d))\n", U.strlits[s], len(s))
		}
		b.WriteString("(assert (distinct s.empty")
		for _, s := range U.strOrder {
			b.WriteString(" " + U.strlits[s])
		}
		b.WriteString("))\n")
	}
	b.WriteString(bundleDecls)
	// layout-independent struct helpers for the spec files: the zero value and
	// one functional update per field, generated from the struct as it is in
	// /repo today (a spec that spells out mk.S with all fields breaks when a
	// field is added; one written with zero.S / with.S.f does not)
	for _, n := range so {
		si := U.structs[n]
		if si == nil || len(si.Fields) == 0 {
			continue
		}
		fmt.Fprintf(&b, "(define-fun zero.%s () %s %s)\n", n, n, U.zero(n))
		for i := range si.Fields {
			if si.Fields[i].Name() == "_" {
				continue
			}
			var args []string
			for j := range si.Fields {
				if j == i {
					args = append(args, "v")
				} else {
					args = append(args, fmt.Sprintf("(%s o)", si.sel(j)))
				}
			}
			fmt.Fprintf(&b, "(define-fun with.%s ((o %s) (v %s)) %s (%s %s))\n", si.sel(i), n, si.FSorts[i], n, si.ctor(), strings.Join(args, " "))
		}
	}
	for _, c := range spec {
		b.WriteString(c.String())
		b.WriteString("\n")
	}
	return b.String()
}

func truncate(s string, n int) string {
	if len(s) > n {
		return s[:n] + "..."
	}
	return s
}

func sortedKeys(m map[string]string) []string {
	ks := make([]string, 0, len(m))
	for k := range m {
		ks = append(ks, k)
	}
	sort.Strings(ks)
	return ks
}
func sortedKeys2(m map[string][2]string) []string {
	ks := make([]string, 0, len(m))
	for k := range m {
		ks = append(ks, k)
	}
	sort.Strings(ks)
	return ks
}
func sortedKeysT(m map[string]types.Type) []string {
	ks := make([]string, 0, len(m))
	for k := range m {
		ks = append(ks, k)
	}
	sort.Strings(ks)
	return ks
}

// goKindOf returns the reflect.Kind number of a Go type.
func goKindOf(t types.Type) int {
	switch u := types.Unalias(t).Underlying().(type) {
	case *types.Basic:
		switch u.Kind() {
		case types.Bool:
			return 1
		case types.Int:
			return 2
		case types.Int8:
			return 3
		case types.Int16:
			return 4
		case types.Int32:
			return 5
		case types.Int64:
			return 6
		case types.Uint:
			return 7
		case types.Uint8:
			return 8
		case types.Uint16:
			return 9
		case types.Uint32:
			return 10
		case types.Uint64:
			return 11
		case types.Uintptr:
			return 12
		case types.Float32:
			return 13
		case types.Float64:
			return 14
		case types.Complex64:
			return 15
		case types.Complex128:
			return 16
		case types.String:
			return 24
		case types.UnsafePointer:
			return 26
		}
	case *types.Array:
		return 17
	case *types.Chan:
		return 18
	case *types.Signature:
		return 19
	case *types.Interface:
		return 20
	case *types.Map:
		return 21
	case *types.Pointer:
		return 22
	case *types.Slice:
		return 23
	case *types.Struct:
		return 25
	}
	return 0
}

func ptrDepth(t types.Type) int {
	n := 0
	for {
		p, ok := types.Unalias(t).Underlying().(*types.Pointer)
		if !ok {
			return n
		}
		n++
		t = p.Elem()
	}
}

// preRegister makes the symbols the spec prelude may mention exist
// independently of which functions are encoded: heaps and embedded-struct
// refs of every named struct of the two packages, and type tags of the types
// that flow through interfaces.
func (U *Universe) preRegister() {
	for _, b := range []types.Type{types.Typ[types.Bool], types.Typ[types.Int], types.Typ[types.Int64], types.Typ[types.Uint64],
		types.Typ[types.Float32], types.Typ[types.Float64], types.Typ[types.String], types.NewSlice(types.Typ[types.Byte]),
		types.NewSlice(types.Universe.Lookup("any").Type())} {
		U.tagOf(b)
	}
	for _, p := range []*types.Package{U.P.Grammar.Pkg, U.P.Bexpr.Pkg} {
		names := p.Scope().Names()
		sort.Strings(names)
		for _, n := range names {
			tn, ok := p.Scope().Lookup(n).(*types.TypeName)
			if !ok {
				continue
			}
			named, ok := tn.Type().(*types.Named)
			if !ok {
				continue
			}
			if _, isI := named.Underlying().(*types.Interface); isI {
				U.impls[namedKey(named)] = named
				continue
			}
			if _, isSig := named.Underlying().(*types.Signature); isSig {
				continue
			}
			U.tagOf(named)
			st, ok := named.Underlying().(*types.Struct)
			if !ok {
				continue
			}
			U.tagOf(types.NewPointer(named))
			U.sortOf(named)
			for i := 0; i < st.NumFields(); i++ {
				f := st.Field(i)
				if _, isS := types.Unalias(f.Type()).Underlying().(*types.Struct); isS && U.sortOf(f.Type()) != "RV" {
					U.embRef("0", named, f)
				} else {
					U.fieldHeap(named, f)
				}
			}
		}
	}
	if o := U.P.Bexpr.Pkg.Scope().Lookup("Option"); o != nil {
		U.sliceSort(o.Type())
	}
	U.sliceSort(types.Typ[types.String])
	U.sliceSort(types.Universe.Lookup("any").Type())
	U.derefHeap(types.Universe.Lookup("any").Type())
	// reflect.Value slices (MapKeys) and their sorted form
	for _, imp := range U.P.Bexpr.Pkg.Imports() {
		if imp.Path() == "reflect" {
			if o := imp.Scope().Lookup("Value"); o != nil {
				srt := U.sliceSort(o.Type())
				sym := "sortedBy." + sortTag(srt)
				U.Sigs[sym] = &Sig{Name: sym, Args: []string{srt, "Fn"}, Res: srt}
				U.extra = append(U.extra, fmt.Sprintf("(declare-fun %s (%s Fn) %s)", sym, srt, srt))
			}
		}
	}
	// json.Number flows through interfaces in evaluateMatchExpression
	for _, imp := range U.P.Bexpr.Pkg.Imports() {
		if imp.Path() == "encoding/json" {
			if o := imp.Scope().Lookup("Number"); o != nil {
				U.tagOf(o.Type())
			}
		}
		if imp.Path() == "regexp" {
			if o := imp.Scope().Lookup("Regexp"); o != nil {
				U.tagOf(types.NewPointer(o.Type()))
			}
		}
	}
}

// captureByValue reports whether free variable i of closure f can be modelled
// as captured by value: inside f it is only loaded from, and in the parent
// the bound cell is an Alloc that is written exactly once (before the
// closure is made) and otherwise only bound to closures of f.
func captureByValue(f *ssa.Function, i int) bool {
	fv := f.FreeVars[i]
	if _, ok := fv.Type().Underlying().(*types.Pointer); !ok {
		return false
	}
	for _, r := range *fv.Referrers() {
		u, ok := r.(*ssa.UnOp)
		if !ok || u.Op != token.MUL {
			return false
		}
	}
	parent := f.Parent()
	if parent == nil {
		return false
	}
	found := false
	for _, b := range parent.Blocks {
		for _, in := range b.Instrs {
			mc, ok := in.(*ssa.MakeClosure)
			if !ok || mc.Fn != f {
				continue
			}
			found = true
			al, ok := mc.Bindings[i].(*ssa.Alloc)
			if !ok {
				return false
			}
			stores := 0
			for _, r := range *al.Referrers() {
				switch r := r.(type) {
				case *ssa.Store:
					if r.Addr != al || r.Block() != mc.Block() {
						return false
					}
					stores++
				case *ssa.MakeClosure:
					if r.Fn != f {
						return false
					}
				case *ssa.DebugRef:
				default:
					return false
				}
			}
			if stores > 1 {
				return false
			}
		}
	}
	return found
}

func (U *Universe) sideFact(s string) {
	if U.emit != nil && !strings.Contains(s, "q!") {
		U.emit(s)
	}
}

// boxTerm builds (box.T x) and emits the ground instances of the boxing axioms.
func (U *Universe) boxTerm(t types.Type, x string) string {
	b := fmt.Sprintf("(%s %s)", U.boxSym(t), x)
	U.sideFact(fmt.Sprintf("(and (= (dyn %s) %s) (= (%s %s) %s) (inv.Any %s))", b, tagSym(U.typeKey(t)), U.unboxSym(t), b, x, b))
	return b
}

// strDecompFacts: every string literal equals the left-nested concatenation of its characters.
func (U *Universe) strDecompFacts() string {
	var b strings.Builder
	for _, s := range U.strOrder {
		if len(s) == 0 {
			continue
		}
		t := fmt.Sprintf("s.ch%d", s[0])
		for i := 1; i < len(s); i++ {
			t = fmt.Sprintf("(s.cat %s s.ch%d)", t, s[i])
		}
		fmt.Fprintf(&b, "(assert (= %s %s))\n", U.strlits[s], t)
	}
	return b.String()
}
