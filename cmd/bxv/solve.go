package main

import (
	"bytes"
	"context"
	"crypto/sha256"
	"encoding/hex"
	"os"
	"os/exec"
	"path/filepath"
	"strconv"
	"strings"
	"sync"
	"time"
)

type Verdict string

const (
	Unsat   Verdict = "unsat"
	Sat     Verdict = "sat"
	Unknown Verdict = "unknown"
	Timeout Verdict = "timeout"
	SErr    Verdict = "error"
)

type SolveResult struct {
	Verdict Verdict
	Solver  string
	Secs    float64
	Output  string // full solver output (model on sat)
	All     map[string]Verdict
}

type solverSpec struct {
	name string
	argv func(file string, tmoMs int) []string
}

var solvers = []solverSpec{
	{"z3-new-5.1.0", func(f string, t int) []string {
		return []string{"z3-new", "-smt2", "-t:" + itoa(t), f}
	}},
	{"cvc5-1.0", func(f string, t int) []string {
		return []string{"cvc5", "--lang=smt2", "--tlimit=" + itoa(t), "--produce-models", f}
	}},
	{"z3-4.8.12", func(f string, t int) []string {
		return []string{"/usr/bin/z3", "-smt2", "-t:" + itoa(t), f}
	}},
}

func itoa(i int) string { return strconv.Itoa(i) }

func runSolver(sp solverSpec, file string, tmo time.Duration) (Verdict, string, float64) {
	return runSolverCtx(context.Background(), sp, file, tmo)
}

func runSolverCtx(parent context.Context, sp solverSpec, file string, tmo time.Duration) (Verdict, string, float64) {
	ctx, cancel := context.WithTimeout(parent, tmo+2*time.Second)
	defer cancel()
	argv := sp.argv(file, int(tmo/time.Millisecond))
	cmd := exec.CommandContext(ctx, argv[0], argv[1:]...)
	var out bytes.Buffer
	cmd.Stdout = &out
	cmd.Stderr = &out
	t0 := time.Now()
	_ = cmd.Run()
	el := time.Since(t0).Seconds()
	s := out.String()
	first := strings.TrimSpace(strings.SplitN(strings.TrimSpace(s), "\n", 2)[0])
	switch {
	case first == "unsat":
		return Unsat, s, el
	case first == "sat":
		return Sat, s, el
	case first == "unknown":
		return Unknown, s, el
	case first == "timeout" || ctx.Err() != nil || strings.Contains(first, "interrupted by timeout"):
		return Timeout, s, el
	}
	return SErr, s, el
}

var cacheDir = "/verif/.cache"
var cacheMu sync.Mutex
var cacheHits, cacheMisses int
var noCache = os.Getenv("BXV_NOCACHE") != ""

func cacheKey(text string) string {
	h := sha256.Sum256([]byte("bxv1\n" + text))
	return hex.EncodeToString(h[:])
}

// solve discharges one closed query. quick: race z3-new first, then the
// others; thorough: ask all three, disagreement is an error verdict.
func solve(text string, workdir string, name string, tmo time.Duration, thorough bool, useCache bool) SolveResult {
	key := cacheKey(text)
	cpath := filepath.Join(cacheDir, key[:2], key)
	if useCache && !noCache && !thorough {
		if b, err := os.ReadFile(cpath); err == nil {
			parts := strings.SplitN(string(b), "\n", 2)
			cacheMu.Lock()
			cacheHits++
			cacheMu.Unlock()
			return SolveResult{Verdict: Unsat, Solver: strings.TrimSpace(parts[0]) + " (cached)", Secs: 0}
		}
	}
	cacheMu.Lock()
	cacheMisses++
	cacheMu.Unlock()
	file := filepath.Join(workdir, sanitizeFile(name)+".smt2")
	_ = os.WriteFile(file, []byte(text), 0o644)
	res := SolveResult{All: map[string]Verdict{}}
	if !thorough {
		// race z3-new and cvc5; the first definitive answer wins and the
		// other process is killed; old z3 is asked only if both give up
		type r struct {
			v    Verdict
			out  string
			secs float64
			n    string
		}
		ctx, cancel := context.WithCancel(context.Background())
		ch := make(chan r, 2)
		for _, sp := range solvers[:2] {
			sp := sp
			go func() {
				v, o, s := runSolverCtx(ctx, sp, file, tmo)
				ch <- r{v, o, s, sp.name}
			}()
		}
		res.Verdict = Unknown
		for i := 0; i < 2; i++ {
			x := <-ch
			res.All[x.n] = x.v
			if x.v == Unsat || x.v == Sat {
				res.Verdict, res.Solver, res.Secs, res.Output = x.v, x.n, x.secs, x.out
				break
			}
			if res.Solver == "" || x.v != SErr {
				res.Solver, res.Secs, res.Output = x.n, x.secs, x.out
				if res.Verdict != Timeout {
					res.Verdict = x.v
				}
			}
		}
		cancel()
		if res.Verdict != Unsat && res.Verdict != Sat {
			v, out, secs := runSolver(solvers[2], file, tmo)
			res.All[solvers[2].name] = v
			if v == Unsat || v == Sat {
				res.Verdict, res.Solver, res.Secs, res.Output = v, solvers[2].name, secs, out
			}
		}
	} else {
		type r struct {
			v    Verdict
			out  string
			secs float64
			n    string
		}
		ch := make(chan r, len(solvers))
		for _, sp := range solvers {
			sp := sp
			go func() {
				v, o, s := runSolver(sp, file, tmo)
				ch <- r{v, o, s, sp.name}
			}()
		}
		res.Verdict = Unknown
		for range solvers {
			x := <-ch
			res.All[x.n] = x.v
			if x.v == Unsat || x.v == Sat {
				if res.Verdict == Unsat || res.Verdict == Sat {
					if res.Verdict != x.v {
						res.Verdict = SErr
						res.Output += "\nSOLVER DISAGREEMENT: " + x.n + "=" + string(x.v)
					}
				} else {
					res.Verdict, res.Solver, res.Secs, res.Output = x.v, x.n, x.secs, x.out
				}
			}
		}
	}
	if res.Verdict == Unsat && useCache {
		_ = os.MkdirAll(filepath.Dir(cpath), 0o755)
		_ = os.WriteFile(cpath, []byte(res.Solver+"\n"), 0o644)
	}
	if res.Verdict == Unsat && os.Getenv("BXV_KEEP") == "" {
		_ = os.Remove(file)
	}
	return res
}

func sanitizeFile(s string) string {
	r := strings.NewReplacer("/", "_", "#", "-", ":", "_", "*", "p", "(", "", ")", "", "$", "S", " ", "_", "@", "-at-", "<", "", ">", "", "[", "", "]", "", ",", "_")
	s = r.Replace(s)
	if len(s) > 150 {
		s = s[:150]
	}
	return s
}

func runSolverText(sp solverSpec, text, workdir, name string, tmo time.Duration) (Verdict, string, float64) {
	file := filepath.Join(workdir, sanitizeFile(name)+".smt2")
	_ = os.WriteFile(file, []byte(text), 0o644)
	v, out, secs := runSolver(sp, file, tmo)
	_ = os.Remove(file)
	return v, out, secs
}
