package main

import (
	"flag"
	"fmt"
	"os"
	"sort"
	"strings"
)

func main() {
	if len(os.Args) < 2 {
		fmt.Fprintln(os.Stderr, "usage: bxv <vc|check|replay|list> ...")
		os.Exit(2)
	}
	switch os.Args[1] {
	case "vc":
		os.Exit(cmdVC(os.Args[2:]))
	case "check":
		os.Exit(cmdCheck(os.Args[2:]))
	case "replay":
		os.Exit(cmdReplay(os.Args[2:]))
	case "list":
		os.Exit(cmdList(os.Args[2:]))
	default:
		fmt.Fprintln(os.Stderr, "unknown command", os.Args[1])
		os.Exit(2)
	}
}

func cmdList(args []string) int {
	P, err := loadProgram(repoDir())
	if err != nil {
		fmt.Fprintln(os.Stderr, err)
		return 2
	}
	for _, k := range sortedFuncKeys(P.Funcs) {
		fmt.Println(k)
	}
	return 0
}

// cmdVC: debugging entry point — encode the named functions and discharge.
func cmdVC(args []string) int {
	fs := flag.NewFlagSet("vc", flag.ExitOnError)
	tier := fs.String("tier", "quick", "")
	dump := fs.Bool("dump", false, "write failing queries")
	verbose := fs.Bool("v", false, "")
	fs.Parse(args)
	V, err := newVerifier(*tier)
	if err != nil {
		fmt.Fprintln(os.Stderr, err)
		return 2
	}
	defer V.Close()
	V.wantModel = true
	keys := fs.Args()
	if len(keys) == 1 && keys[0] == "all" {
		keys = nil
		for k, c := range V.CS.ByKey {
			if !c.External {
				keys = append(keys, k)
			}
		}
		sort.Strings(keys)
	}
	obls := V.encodeFuncs(keys)
	for k, e := range V.encErrs {
		fmt.Printf("ENCODE-ERROR %s: %v\n", k, e)
	}
	V.discharge(obls)
	bad := 0
	for _, o := range obls {
		if o.ExpectSat {
			if o.Res.Verdict == Unsat {
				bad++
				fmt.Printf("VACUOUS  %s\n", o.Name)
			}
			continue
		}
		if o.Res.Verdict != Unsat {
			bad++
		}
		if *verbose || o.Res.Verdict != Unsat {
			pos := ""
			if o.Pos.IsValid() {
				pp := V.P.Fset.Position(o.Pos)
				pos = fmt.Sprintf("%s:%d", pp.Filename[strings.LastIndex(pp.Filename, "/")+1:], pp.Line)
			}
			fmt.Printf("%-8s %-70s %s %.2fs %s %s\n", o.Res.Verdict, o.Name, o.Res.Solver, o.Res.Secs, o.Note, pos)
			if o.Res.Verdict != Unsat && *dump {
				f := "/tmp/bxv-" + sanitizeFile(o.Name) + ".smt2"
				os.WriteFile(f, []byte(o.Text), 0o644)
				fmt.Println("   query:", f)
				if o.Res.Verdict == Sat {
					fmt.Println("   " + strings.ReplaceAll(truncate(o.Res.Output, 1500), "\n", "\n   "))
				}
			}
		}
	}
	for _, k := range keys {
		if e := V.encs[k]; e != nil {
			for _, n := range e.imprecise {
				fmt.Printf("IMPRECISE %s: %s\n", k, n)
			}
			if *verbose {
				for _, n := range e.notes {
					fmt.Printf("NOTE %s: %s\n", k, n)
				}
			}
		}
	}
	for k, n := range V.missing {
		fmt.Printf("MISSING-CONTRACT %s (%d calls)\n", k, n)
	}
	fmt.Printf("%d obligations, %d not discharged (cache hits %d)\n", len(obls), bad, cacheHits)
	if bad > 0 {
		return 1
	}
	return 0
}

func init() {
	if os.Getenv("BXV_DEBUG_CONTRACTS") != "" {
		cs, err := loadContracts(contractFiles(repoDir()))
		fmt.Println(err)
		if cs != nil {
			for k, c := range cs.ByKey {
				fmt.Println(k, c.Params, c.Results, len(c.Requires), len(c.Ensures), len(c.Loops))
			}
		}
		os.Exit(0)
	}
}
