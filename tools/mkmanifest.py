#!/usr/bin/env python3
"""Generate /verif/MANIFEST.json from the table below (kept in one place so the
manifest stays valid and consistent with what bxv implements)."""
import json, subprocess

BASE_TRUST = "bxv (self-written VC generator over go/ssa), go/ssa, the SMT solvers; external contracts of reflect/strconv/fmt/errors/strings/regexp assumed from documentation (spec/*.spec); see spec/ASSUMPTIONS.md"

TECH="contract-based deductive verification: WP/VC generation over go/ssa of the real functions, contracts as //@ comments, obligations discharged by z3/cvc5"
CHECKS = {
 "C01": dict(cat="proof",
   text="Every function from Evaluate down to the doEqual* comparators carries a functional postcondition against the spec function Eval (and EvalMatchP, EvalCollP/FoldColl, Resolve/ResolveFrom, EqSpec, InSpec, EmptySpec, MatchesSpec, FoldOpts), transcribed from the property statement; the obligations (posts at every return, loop invariants of the four loops, callee preconditions) are discharged for all data, literals, trees and option lists, with one-step unfolding of the recursive spec functions.",
   note=BASE_TRUST + "; the meaning of a path walk is pointerstructure's (A-PS: PSGet uninterpreted), strconv/regexp results are uninterpreted spec functions of the same arguments; wf(ast) from the parser; A-STACK.",
   tech=TECH, ref="DESIGN.md §6 C01"),
 "C02": dict(cat="proof",
   text="Coerce*, getMatchExprValue, primitiveEqualityFn, the six doEqual* and doMatchEqual are verified against EqSpec: the literal is parsed with ParseBool / ParseInt(s,0,64) / ParseUint(s,0,64) / ParseFloat(s,32|64) exactly (base and bit size are arguments of the spec function, so a changed base fails), integers are compared as mathematical integers, floats in SMT FloatingPoint at the field's width, a bad literal and a non-scalar kind yield the error outcome; the json.Number narrowing in evaluateMatchExpression is part of EvalMatchVal.",
   note=BASE_TRUST + "; A-STRCONV, A-JSON.", tech=TECH, ref="DESIGN.md §6 C02"),
 "C03": dict(cat="proof",
   text="evaluate's postcondition outcome == Eval(ast, ...) is discharged at each of its returns with Eval unfolded once at the node: not swaps T/F and passes E, and/or return the left outcome unless it is T (resp. F) and then the right one, so the number and order of recursive evaluations is fixed by the spec; double negation, both De Morgan rewrites and 'an unreached operand's error is not reported' are spec-level lemmas discharged by SMT; termination by decreases on tree size.",
   note=BASE_TRUST + "; wf(ast) (acyclic tree) from the parser.", tech=TECH, ref="DESIGN.md §6 C03"),
 "C04": dict(cat="proof",
   text="evaluateMatchExpression is verified against EvalMatchP, in which a negated operator is neg3 of its positive form applied to the same arguments, and the absent-key case is Disposition(op); NotPresentDisposition is verified against the table from the property; lemmas: the table, Disposition(negOp(op)) == !Disposition(op), EvalMatchVal(negOp(op)) == neg3(EvalMatchVal(op)), and the complement on absent keys. (The contains==in half lives in the grammar actions, see C15/C20.)",
   note=BASE_TRUST + "; A-PS.", tech=TECH, ref="DESIGN.md §6 C04"),
 "C05": dict(cat="proof",
   text="getValue is verified against Resolve/ResolveGlobal: NotFound with an unknown value configured yields that value before any parent test, NotFound with >= 2 parts and a map parent (through pointers: derefValue against derefRV) yields 'absent', every other failure is an error; evaluateNotPresent, the absent branches of evaluateMatchExpression (Disposition) and evaluateCollectionExpression (op == ALL), and the plumbing of the unknown value through Evaluate/WithUnknownValue/getOpts are all under contract; lemmas: the unknown value is unused when the selector resolves, and substitutes exactly when it does not.",
   note=BASE_TRUST + "; which failures are ErrNotFound is pointerstructure's (A-PS).", tech=TECH, ref="DESIGN.md §6 C05"),
 "C06": dict(cat="proof",
   text="evaluateCollectionExpression is verified against EvalCollP/FoldColl with a loop invariant FoldColl(i) == FoldColl(0): index order, first decisive element or first error ends the fold, empty gives any=false/all=true, non-list/non-string-keyed-map is an error; the binding lists built per element must equal bindList/bindMap from the property (value alias first, then key/index value; one-name form = value for lists, key for maps); the alias-resolution loop of getValue is verified against ResolveFrom (innermost binding first, alias re-resolved through the outer bindings, key/index names cannot be stepped into).",
   note=BASE_TRUST + "; A-PS, A-SORT, A-STACK.", tech=TECH, ref="DESIGN.md §6 C06"),
 "C09": dict(cat="proof",
   text="Every reflect call, type assertion, index/slice, nil dereference and indirect call in every function reachable from Evaluate carries a precondition obligation generated from the real code's SSA (zero-annotation safety sweep), and `err != nil ==> !res` is a postcondition of every function of the chain; all are discharged by SMT for an unconstrained datum (any kind, nil at any depth). Termination of the recursions and all loops by decreases clauses.",
   note=BASE_TRUST + "; A-PS (pointerstructure.Get total), A-OPTS (options come from this package's constructors), wf(ast) supplied by the parser (C10), A-STACK.",
   tech=TECH, ref="DESIGN.md §6 C09"),
 "C14": dict(cat="proof",
   text="reflect.Value.MapKeys is specified as an arbitrary enumeration (keysOf); the postcondition of evaluateCollectionExpression is stated over sortedKeys(v) and cannot mention the enumeration, so it holds for every map order; the comparison closure passed to sort.Slice is verified to be the string order on the keys. (Filter.Execute over maps: see C17.)",
   note=BASE_TRUST + "; A-SORT (sort.Slice sorts).", tech=TECH, ref="DESIGN.md §6 C14"),
 "C18": dict(cat="proof",
   text="Each option closure is verified to implement applyOpt for its constructor and to assign only its own field of *o (located assigns checked by the SSA frame walk); getOpts is verified against the left fold FoldOpts (loop invariant over the processed prefix, nil options skipped); Evaluate is verified to evaluate under exactly (tagName, hook, unknown value) of the evaluator; lemmas over applyOpt: distinct constructors commute, the last of equal constructors wins, each touches only its own field, and the neutral settings are no-ops.",
   note=BASE_TRUST + "; hook neutrality/effect inside pointerstructure is A-PS/A-HOOK; CreateEvaluator's plumbing is checked with C10.", tech=TECH, ref="DESIGN.md §6 C18"),
}

NA_REASON_PENDING = "check not built yet in this session (planned, see DESIGN.md §10); nothing is claimed"

def main():
    props=[json.loads(l)["id"] for l in open("/verif/properties.jsonl")]
    commits=subprocess.check_output(["git","-C","/repo","log","--format=%H","--grep=^verif:"]).decode().split()
    checks=[]
    for pid in props:
        if pid not in CHECKS: continue
        c=CHECKS[pid]
        checks.append({
          "property_id": pid,
          "quick_cmd": f"bin/bxv check --property {pid} --tier quick",
          "thorough_cmd": f"bin/bxv check --property {pid} --tier thorough",
          "evidence_file": f"/verif/evidence/{pid}.json",
          "replay_cmd_template": "bin/bxv replay {path}",
          "engine": "bxv",
          "level_claimed": {"category": c["cat"], "text": c["text"], "design_ref": c["ref"]},
          "level_note": c["note"],
          "technique": c["tech"],
        })
    na=[{"property_id":p,"reason":NA.get(p,NA_REASON_PENDING)} for p in props if p not in CHECKS]
    m={
     "version":1,
     "setup_cmd":"cd /verif && ./setup.sh",
     "hooks":{"guard":"verif","enable":"go build/test -tags verif (bxv loads /repo with -tags=verif)","baseline_off_cmd":"cd /repo && go test -mod=mod -vet=off -count=1 ./...","source_commits":commits,"add_only":True},
     "engines":[{"name":"bxv","path":"/verif/cmd/bxv","serves_properties":[c["property_id"] for c in checks],"kind_free_text":"self-written verification-condition generator for Go (go/ssa -> SMT-LIB, contracts as //@ comments in build-tag-guarded files of /repo), z3 5.1.0 / z3 4.8.12 / cvc5 1.0 portfolio, SSA frame walks, counterexample replay through go test -overlay"}],
     "checks":checks,
     "not_applicable":na,
     "notes":"Contracts live in /repo/contracts_verif.go and /repo/grammar/contracts_verif.go (//go:build verif, comment-only). Spec functions, external contracts and assumptions: /verif/spec. Known findings / fixed defects: /verif/known_findings.json.",
    }
    json.dump(m, open("/verif/MANIFEST.json","w"), indent=1)
    print("MANIFEST.json:", len(checks), "checks,", len(na), "not_applicable")

NA = {}
if __name__=="__main__":
    main()
