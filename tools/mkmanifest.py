#!/usr/bin/env python3
"""Generate /verif/MANIFEST.json from the table below (kept in one place so the
manifest stays valid and consistent with what bxv implements)."""
import json, subprocess

BASE_TRUST = "bxv (self-written VC generator over go/ssa), go/ssa, the SMT solvers; external contracts of reflect/strconv/fmt/errors/strings/regexp assumed from documentation (spec/*.spec); see spec/ASSUMPTIONS.md"

CHECKS = {
 "C09": dict(cat="proof",
   text="Every reflect call, type assertion, index/slice, nil dereference and indirect call in every function reachable from Evaluate carries a precondition obligation generated from the real code's SSA (zero-annotation safety sweep), and `err != nil ==> !res` is a postcondition of every function of the chain; all are discharged by SMT for an unconstrained datum (any kind, nil at any depth). Termination of the two recursions and all loops by decreases clauses.",
   note=BASE_TRUST + "; A-PS (pointerstructure.Get total), A-OPTS (options come from this package's constructors), wf(ast) supplied by the parser (C10), A-STACK.",
   tech="contract-based deductive verification: WP/VC generation over go/ssa with contracts in //@ comments, discharged by z3/cvc5",
   ref="DESIGN.md §6 C09"),
}

NA_REASON_PENDING = "check not built yet in this session (planned, see DESIGN.md §10); nothing is claimed"

def main():
    props=[json.loads(l)["id"] for l in open("/verif/properties.jsonl")]
    commits=subprocess.check_output(["git","-C","/repo","log","--format=%H","--grep=^verif:"]).decode().split()
    checks=[]
    for pid in props:
        if pid not in CHECKS: continue
        c=CHECKS[pid]
        checks.append({
          "property_id": pid,
          "quick_cmd": f"bin/bxv check --property {pid} --tier quick",
          "thorough_cmd": f"bin/bxv check --property {pid} --tier thorough",
          "evidence_file": f"/verif/evidence/{pid}.json",
          "replay_cmd_template": "bin/bxv replay {path}",
          "engine": "bxv",
          "level_claimed": {"category": c["cat"], "text": c["text"], "design_ref": c["ref"]},
          "level_note": c["note"],
          "technique": c["tech"],
        })
    na=[{"property_id":p,"reason":NA.get(p,NA_REASON_PENDING)} for p in props if p not in CHECKS]
    m={
     "version":1,
     "setup_cmd":"cd /verif && ./setup.sh",
     "hooks":{"guard":"verif","enable":"go build/test -tags verif (bxv loads /repo with -tags=verif)","baseline_off_cmd":"cd /repo && go test -mod=mod -vet=off -count=1 ./...","source_commits":commits,"add_only":True},
     "engines":[{"name":"bxv","path":"/verif/cmd/bxv","serves_properties":[c["property_id"] for c in checks],"kind_free_text":"self-written verification-condition generator for Go (go/ssa -> SMT-LIB, contracts as //@ comments in build-tag-guarded files of /repo), z3 5.1.0 / z3 4.8.12 / cvc5 1.0 portfolio, SSA frame walks, counterexample replay through go test -overlay"}],
     "checks":checks,
     "not_applicable":na,
     "notes":"Contracts live in /repo/contracts_verif.go and /repo/grammar/contracts_verif.go (//go:build verif, comment-only). Spec functions, external contracts and assumptions: /verif/spec. Known findings / fixed defects: /verif/known_findings.json.",
    }
    json.dump(m, open("/verif/MANIFEST.json","w"), indent=1)
    print("MANIFEST.json:", len(checks), "checks,", len(na), "not_applicable")

NA = {}
if __name__=="__main__":
    main()
