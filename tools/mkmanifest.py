#!/usr/bin/env python3
"""Generate /verif/MANIFEST.json from the table below (kept in one place so the
manifest stays valid and consistent with what bxv implements)."""
import json, subprocess

BASE_TRUST = "bxv (self-written VC generator over go/ssa), go/ssa, the SMT solvers; external contracts of reflect/strconv/fmt/errors/strings/regexp assumed from documentation (spec/*.spec); see spec/ASSUMPTIONS.md"

TECH="contract-based deductive verification: WP/VC generation over go/ssa of the real functions, contracts as //@ comments, obligations discharged by z3/cvc5"
CHECKS = {
 "C01": dict(cat="proof",
   text="Every function from Evaluate down to the doEqual* comparators carries a functional postcondition against the spec function Eval (and EvalMatchP, EvalCollP/FoldColl, Resolve/ResolveFrom, EqSpec, InSpec, EmptySpec, MatchesSpec, FoldOpts), transcribed from the property statement; the obligations (posts at every return, loop invariants of the four loops, callee preconditions) are discharged for all data, literals, trees and option lists, with one-step unfolding of the recursive spec functions.",
   note=BASE_TRUST + "; the meaning of a path walk is pointerstructure's (A-PS: PSGet uninterpreted), strconv/regexp results are uninterpreted spec functions of the same arguments; wf(ast) from the parser; A-STACK.",
   tech=TECH, ref="DESIGN.md §6 C01"),
 "C02": dict(cat="proof",
   text="Coerce*, getMatchExprValue, primitiveEqualityFn, the six doEqual* and doMatchEqual are verified against EqSpec: the literal is parsed with ParseBool / ParseInt(s,0,64) / ParseUint(s,0,64) / ParseFloat(s,32|64) exactly (base and bit size are arguments of the spec function, so a changed base fails), integers are compared as mathematical integers, floats in SMT FloatingPoint at the field's width, a bad literal and a non-scalar kind yield the error outcome; the json.Number narrowing in evaluateMatchExpression is part of EvalMatchVal.",
   note=BASE_TRUST + "; A-STRCONV, A-JSON.", tech=TECH, ref="DESIGN.md §6 C02"),
 "C03": dict(cat="proof",
   text="evaluate's postcondition outcome == Eval(ast, ...) is discharged at each of its returns with Eval unfolded once at the node: not swaps T/F and passes E, and/or return the left outcome unless it is T (resp. F) and then the right one, so the number and order of recursive evaluations is fixed by the spec; double negation, both De Morgan rewrites and 'an unreached operand's error is not reported' are spec-level lemmas discharged by SMT; termination by decreases on tree size.",
   note=BASE_TRUST + "; wf(ast) (acyclic tree) from the parser.", tech=TECH, ref="DESIGN.md §6 C03"),
 "C04": dict(cat="proof",
   text="evaluateMatchExpression is verified against EvalMatchP, in which a negated operator is neg3 of its positive form applied to the same arguments, and the absent-key case is Disposition(op); NotPresentDisposition is verified against the table from the property; lemmas: the table, Disposition(negOp(op)) == !Disposition(op), EvalMatchVal(negOp(op)) == neg3(EvalMatchVal(op)), and the complement on absent keys. (The contains==in half lives in the grammar actions, see C15/C20.) The function set is the whole evaluation chain from Evaluate down: a step added between the operators and the caller (e.g. post-processing of errors in evaluate()) fails under this check.",
   note=BASE_TRUST + "; A-PS.", tech=TECH, ref="DESIGN.md §6 C04"),
 "C05": dict(cat="proof",
   text="getValue is verified against Resolve/ResolveGlobal: NotFound with an unknown value configured yields that value before any parent test, NotFound with >= 2 parts and a map parent (through pointers: derefValue against derefRV) yields 'absent', every other failure is an error; evaluateNotPresent, the absent branches of evaluateMatchExpression (Disposition) and evaluateCollectionExpression (op == ALL), and the plumbing of the unknown value through Evaluate/WithUnknownValue/getOpts are all under contract; lemmas: the unknown value is unused when the selector resolves, and substitutes exactly when it does not.",
   note=BASE_TRUST + "; which failures are ErrNotFound is pointerstructure's (A-PS).", tech=TECH, ref="DESIGN.md §6 C05"),
 "C06": dict(cat="proof",
   text="evaluateCollectionExpression is verified against EvalCollP/FoldColl with a loop invariant FoldColl(i) == FoldColl(0): index order, first decisive element or first error ends the fold, empty gives any=false/all=true, non-list/non-string-keyed-map is an error; the binding lists built per element must equal bindList/bindMap from the property (value alias first, then key/index value; one-name form = value for lists, key for maps); the alias-resolution loop of getValue is verified against ResolveFrom (innermost binding first, alias re-resolved through the outer bindings, key/index names cannot be stepped into).",
   note=BASE_TRUST + "; A-PS, A-SORT, A-STACK.", tech=TECH, ref="DESIGN.md §6 C06"),
 "C09": dict(cat="proof",
   text="Every reflect call, type assertion, index/slice, nil dereference and indirect call in every function reachable from Evaluate carries a precondition obligation generated from the real code's SSA (zero-annotation safety sweep; the set of functions is recomputed on every run as everything reachable from Evaluate and Filter.Execute in the call graph, so a helper added later is swept whether or not anybody gave it a contract), and `err != nil ==> !res` is a postcondition of every function of the chain; all are discharged by SMT for an unconstrained datum (any kind, nil at any depth). Termination of the recursions and all loops by decreases clauses.",
   note=BASE_TRUST + "; A-PS (pointerstructure.Get total), A-OPTS (options come from this package's constructors), wf(ast) supplied by the parser (derived under C10: grammar typing), A-STACK.",
   tech=TECH, ref="DESIGN.md §6 C09"),
 "C14": dict(cat="proof",
   text="reflect.Value.MapKeys is specified as an arbitrary enumeration (keysOf); the postcondition of evaluateCollectionExpression is stated over sortedKeys(v) and cannot mention the enumeration, so it holds for every map order; the comparison closure passed to sort.Slice is verified to be the string order on the keys. Every other function of the evaluation chain and Filter.Execute are part of this check too: their functional postconditions (result == spec function of the arguments, with every map enumeration left arbitrary) are what makes them deterministic - a new dependence on iteration order (e.g. `in` over MapKeys()) fails the function's own post under C14.",
   note=BASE_TRUST + "; A-SORT (sort.Slice sorts).", tech=TECH, ref="DESIGN.md §6 C14"),
 "C18": dict(cat="proof",
   text="Each option closure is verified to implement applyOpt for its constructor and to assign only its own field of *o (located assigns checked by the SSA frame walk); getOpts is verified against the left fold FoldOpts (loop invariant over the processed prefix, nil options skipped); Evaluate is verified to evaluate under exactly (tagName, hook, unknown value) of the evaluator, and every function that carries the option list from there to the pointer lookup (evaluate, evaluateMatchExpression, evaluateCollectionExpression and its closure, getValue, evaluateNotPresent, Filter.Execute) is verified to pass it on unchanged (their posts are stated over the same AOpts); lemmas over applyOpt: distinct constructors commute, the last of equal constructors wins, each touches only its own field, and the neutral settings are no-ops.",
   note=BASE_TRUST + "; hook neutrality/effect inside pointerstructure is A-PS/A-HOOK; CreateEvaluator's plumbing is checked with C10.", tech=TECH, ref="DESIGN.md §6 C18"),
}

CHECKS.update({
 "C07": dict(cat="proof",
   text="Evaluator half: an SSA read-frame walk shows that on every function reachable from Evaluate/Execute the field Selector.Type is loaded only inside Selector.String and that Selector.String results flow only into fmt.Errorf, and the evaluator's contracts (getValue against Resolve) mention Selector.Path only - so the outcome cannot depend on the spelling. Parser half: the eight selector-building actions are verified by WP against what they must put into Path (identifier text, text[1:] for .N and /seg, the unquoted string for [..], RFC 6901 decoding through pointerstructure.Parse for the pointer form). Which text reaches which action is A-ENGINE and the grammar's business: a bounded run over all spellings of paths with awkward keys (~0, ~1, zero-padded and non-ASCII numerals, case, unicode), in which every spelling grammar.peg admits must be accepted and evaluate like the bracket spelling, is part of every quick check (labelled bounded, never counted as proved).",
   note=BASE_TRUST + "; A-PS (Parse decodes RFC 6901; Get matches parts exactly), A-ENGINE.", tech=TECH+" + SSA read-frame walk + bounded spelling run against the bracket spelling (stand-in for the text-to-action link)", ref="DESIGN.md §6 C07"),
 "C08": dict(cat="proof",
   text="No channel exists through which struct content reaches an outcome except pointerstructure.Get under the evaluator's tag: (1) an SSA walk over every function reachable from Evaluate/Execute finds no call of Field*/NumField/IsZero/DeepEqual/Equal/fmt.Sprint-style observers; (2) every content observer that is called carries a precondition (discharged by SMT) that excludes kind Struct - Len, Int/Uint/Float/Bool, String (required to be of kind String), Convert, MapIndex, Index; (3) getValue/evaluateNotPresent are verified to pass exactly (tag name, hook) of the evaluator to every Get call. Non-interference then follows on paper from the assumed contract of Get (A-PS).",
   note=BASE_TRUST + "; item (3) of the argument - Get never returns hidden content - is the dependency's (A-PS).", tech=TECH+" + SSA read-discipline walk", ref="DESIGN.md §6 C08"),
 "C10": dict(cat="proof",
   text="CreateEvaluator and CreateFilter are verified against: evaluator xor error; error == nil exactly when grammar.Parse accepts the same bytes under the forwarded budget; a returned evaluator satisfies the precondition of Evaluate (wf tree, cache invariant) and carries the folded options; the empty-string nil Filter. (*parser).parse is verified together with its deferred recover closure (defer/recover rule: a panic raised anywhere after the defer statement - explicit, from a callee, or from an implicit run-time check - is modelled by a block that starts from the heap at the defer with everything the rest of the body can write havocked): no panic leaves parse when recover is on, and a recovered panic is reported as (nil, non-nil error); errList.add/err/dedupe and addErr/addErrAt carry the contracts this needs. That a SUCCESSFUL parse yields a non-nil, well-formed Expression is derived by the grammar typing obligations (typing:*): rule contracts on the table `var g` (//@ rule R(v, n) yields ...), checked on every run against the table as read from grammar.go and the WP-verified action contracts - at every one of the 50 action sites the label values satisfy the action's requires (no failing type assertion or slice expression), every alternative establishes its rule's value type, and the entry rule's type implies what Parse promises (wfS: children non-nil, a match value present unless the operator is `is [not] empty`); each goal has a vacuity canary. The value passing this derivation relies on is itself verified on the engine code: parseExpr, parseRule and the 15 node methods of grammar.go are proved (WP, quantified loop invariants) against the relation yields(node, value) of spec/27-peg.smt2 (sequence -> []any of its parts' values in order, * + -> []any, ? -> value or nil, label / rule reference / choice -> the sub-value, predicates -> nil, matchers -> []byte, failed match -> nil). Still assumed (A-ENGINE): the label-to-parameter hand-over through the vstack maps, rule lookup by name, c.text, and which text is matched; A-ACYCLIC; that accept/reject is a function of bytes and budget remains assumed on grammar.Parse; newParser/setOptions and the option closures are verified (recover flag on unless Recover(false) is passed, which CreateEvaluator never does). Arbitrary bytes: bounded run (all byte strings <= 2, <= 3 over 31 bytes, token sequences <= 3) on a violation and in the thorough tier.",
   note=BASE_TRUST + "; A-ENGINE (label hand-over through the vstack maps, rule lookup by name, c.text, recognition), A-ACYCLIC, A-STACK.", tech=TECH, ref="DESIGN.md §6 C10"),
 "C11": dict(cat="proof",
   text="Integer invariants on the real engine: parseExpr adds exactly one step and panics only when the step exceeds the budget; all 18 engine methods keep ExprCnt <= maxExprCnt, never decrease ExprCnt and never change the budget (WP with loop invariants; helpers without contracts are abstracted by the heap keys their code can write). SSA walk over the package: the counter is written only in parseExpr, the budget only in newParser/MaxExpressions$1 and read only there and at the guard. Forwarding: WithMaxExpressions(n) -> MaxExpressions(n) iff n != 0 -> maxExprCnt (0 -> MaxUint64). (*parser).parse and its deferred recover closure are verified: the budget panic raised by parseExpr ends as (nil, error), never as a success. The three clauses of the property follow by the lock-step lemma (spec/C11.md, on paper).",
   note=BASE_TRUST + "; A-ARITH-1 (no 2^64 wrap); bounded relational run through the verif-only accessor ParseCounted in the thorough tier.", tech=TECH+" + SSA field-frame walk", ref="DESIGN.md §6 C11"),
 "C12": dict(cat="proof",
   text="Sufficient condition decided for all schedules: an interprocedural write-effect analysis on SSA (zero-annotation) shows that no store, map update, append-into-backing-array or mutating library call reachable from Evaluate, Execute, CreateEvaluator, CreateFilter or Expression targets memory the call did not allocate itself (no write through the receiver, the datum, the shared syntax tree or a package variable), and that no go statement or channel operation is reachable. With all shared accesses being reads there is no data race (A-DRF) and each call returns its sequential result (C13/C14). doMatchMatches/compileRegexps are additionally under WP contracts for the regexp cache invariant.",
   note="bxv's SSA walk; A-DRF; A-EXT-PURE (library functions other than the listed mutators do not write through their arguments); A-HOOK; regexp.Regexp is safe for concurrent use (documented).", tech="contract-style frame conditions decided by an interprocedural SSA write-effect analysis; WP for the cache invariant", ref="DESIGN.md §6 C12"),
 "C13": dict(cat="proof",
   text="The same write-effect analysis, read sequentially: nothing reachable from the datum or from the Evaluator/Filter is ever written by Evaluate/Execute; the postcondition of Evaluate (C01) mentions only the evaluator's fields and the datum, so a used evaluator behaves like a fresh one; the regexp cache obeys the invariant allCacheOK (empty or the compiled form of Raw) and doMatchMatches returns MatchesSpec on both the hit and the miss path; Expression() is verified to return the stored creation string, CreateEvaluator to store it unchanged.",
   note=BASE_TRUST + "; A-EXT-PURE, A-PS (Get does not write to the datum).", tech=TECH+" + SSA write-effect analysis", ref="DESIGN.md §6 C13"),
 "C15": dict(cat="exploration",
   text="The contract Parse(b) == RefParse(b) cannot be discharged: it needs the pigeon engine proved equal to PEG semantics, which is outside this VC generator's reach. A bounded check of the real function stands in (labelled bounded, never counted as proved): grammar.Parse is compared with an independent hand-written PEG recognizer/AST builder on every short token sequence (see rule). Proved sub-claims reported beside it (WP on the real code, all inputs): all 50 semantic actions (they build the prescribed node from their arguments); the engine's node methods pass values as PEG semantics prescribes (ensures yields, spec/27-peg.smt2) and keep backtracking hygiene (a failed match leaves the read position where it was; the & and ! predicates never consume); and C20 (the table is the grammar). What is matched - the matchers, read(), and hence the accepted language - is only covered by the bounded run.",
   note="the reference parser is the oracle; A-ENGINE is what the bounded run stands in for.", tech="bounded exhaustive differential run against an independent reference (stand-in) + WP contracts on the semantic actions and the engine's node methods", ref="DESIGN.md §6 C15, §7"),
 "C16": dict(cat="exploration",
   text="Round trip render->parse on an enumerated space of trees x layouts, and X == <quoted s> on X = s for a list of awkward and pseudo-random strings (bounded stand-in). Proved sub-claims: onNotExpression2 folds double negation, onStringLiteral2 returns exactly strconv.Unquote of the matched text, onValue2/5/8 put the literal text (for a quoted JSON-Pointer-shaped literal: the text between the quotes) into Raw.",
   note="A-ENGINE; precedence/grouping are only in the bounded part.", tech="bounded round-trip enumeration (stand-in) + WP contracts on the literal-building actions", ref="DESIGN.md §6 C16, §7"),
 "C17": dict(cat="proof",
   text="Filter.Execute is verified against FilterFrom (left-to-right, first error ends it, kept elements in order) with a loop invariant over the reflect slice being built; result type = input type for slices, SliceOf(elem) for arrays, input type for maps; for maps the content of the new map is characterised pointwise and independently of the enumeration order of MapKeys (a ghost heap models the reflect map under construction); nil Filter returns its input; nil and non-container inputs are errors; the input is not written (write-effect analysis, C13).",
   note=BASE_TRUST + "; A-REFLECT for MakeSlice/Append/MakeMap/SetMapIndex.", tech=TECH, ref="DESIGN.md §6 C17"),
 "C19": dict(cat="proof",
   text="The four ExpressionDump methods, Selector.String, the three operator String methods and CollectionNameBinding.String are verified against the spec function Render (one block per node, pre-order, one indent per level, operator names, selector spelling, quoted literal only for ==, !=, in, not in): fmt.Fprintf/Sprintf with constant formats are expanded symbolically by bxv, string literals are decomposed into characters so that chunking does not matter, and concatenation is normalised by associativity; termination by decreases on tree size.",
   note=BASE_TRUST + "; A-FMT (%q is specQuote, %v of a Stringer calls String), A-ARITH-2 (level + height < 2^62), wf trees from the parser (A-ENGINE).", tech=TECH, ref="DESIGN.md §6 C19"),
 "C20": dict(cat="translation_validation",
   text="On every run bxv reads grammar.peg with its own reader of pigeon's meta-grammar, derives the rule table pigeon would emit (node kinds, literals with want strings, character classes split into chars/ranges/classes, labels, predicates, repetition operators, rule references, pre-order action names) and compares it node by node with the composite literal `g` extracted from grammar.go by go/ast; every action/predicate body is compared as a position-independent Go AST with the code block of the grammar, its parameter list with the labels in scope, its trampoline with the label order. Complete (all 37 rules, ~520 nodes, 50 code blocks), not sampled; pos fields are not compared.",
   note="bxv's PEG reader and table evaluator; the static runtime part of grammar.go has no source in grammar.peg (it is C15's).", tech="translation validation: structural comparison of the generated table and action functions with the grammar source", ref="DESIGN.md §6 C20"),
})

NA_REASON_PENDING = "check not built yet in this session (planned, see DESIGN.md §10); nothing is claimed"

def main():
    props=[json.loads(l)["id"] for l in open("/verif/properties.jsonl")]
    commits=subprocess.check_output(["git","-C","/repo","log","--format=%H","--grep=^verif:"]).decode().split()
    checks=[]
    for pid in props:
        if pid not in CHECKS: continue
        c=CHECKS[pid]
        checks.append({
          "property_id": pid,
          "quick_cmd": f"bin/bxv check --property {pid} --tier quick",
          "thorough_cmd": f"bin/bxv check --property {pid} --tier thorough",
          "evidence_file": f"/verif/evidence/{pid}.json",
          "replay_cmd_template": "bin/bxv replay {path}",
          "engine": "bxv",
          "level_claimed": {"category": c["cat"], "text": c["text"], "design_ref": c["ref"]},
          "level_note": c["note"],
          "technique": c["tech"],
        })
    na=[{"property_id":p,"reason":NA.get(p,NA_REASON_PENDING)} for p in props if p not in CHECKS]
    m={
     "version":1,
     "setup_cmd":"cd /verif && ./setup.sh",
     "hooks":{"guard":"verif","enable":"go build/test -tags verif (bxv loads /repo with -tags=verif)","baseline_off_cmd":"cd /repo && go test -mod=mod -vet=off -count=1 ./...","source_commits":commits,"add_only":True},
     "engines":[{"name":"bxv","path":"/verif/cmd/bxv","serves_properties":[c["property_id"] for c in checks],"kind_free_text":"self-written verification-condition generator for Go (go/ssa -> SMT-LIB, contracts as //@ comments in build-tag-guarded files of /repo), z3 5.1.0 / z3 4.8.12 / cvc5 1.0 portfolio, SSA frame walks, counterexample replay through go test -overlay"}],
     "checks":checks,
     "not_applicable":na,
     "notes":"Contracts live in /repo/contracts_verif.go and /repo/grammar/contracts_verif.go (//go:build verif, comment-only). Spec functions, external contracts and assumptions: /verif/spec. Known findings / fixed defects: /verif/known_findings.json.",
    }
    json.dump(m, open("/verif/MANIFEST.json","w"), indent=1)
    print("MANIFEST.json:", len(checks), "checks,", len(na), "not_applicable")

NA = {}
if __name__=="__main__":
    main()
