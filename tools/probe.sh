#!/bin/bash
# usage: probe.sh query.smt2 '<smt bool term>'  -- replaces the negated goal by (not term)
f=$1; t=$2
python3 - "$f" "$t" <<'PY' > /tmp/probe.smt2
import sys
lines=open(sys.argv[1]).read().split('\n')
# find last "(assert (not" line
idx=max(i for i,l in enumerate(lines) if l.startswith('(assert (not '))
lines[idx]='(assert (not %s))'%sys.argv[2]
out=[l for l in lines if not l.startswith('(get-model')]
print('\n'.join(out))
PY
z3-new -smt2 -t:10000 /tmp/probe.smt2 | head -2
