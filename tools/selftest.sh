#!/bin/bash
# Selftest of the machinery (DESIGN §9): applies each must-fail change
# (seeded/*, selftest/mutants/*) and each must-pass change (selftest/benign/*)
# to a scratch worktree of /repo and runs the checks against it with
# BXV_REPO. Nothing is written into /repo or /verif/evidence.
# usage: [SELFTEST_ONLY=<regex on names>] selftest.sh [benign|seeded|mutants|all] [properties...]
export GOFLAGS=-mod=mod GOPROXY=off GOSUMDB=off GOTOOLCHAIN=local
mode=${1:-all}; shift
props="$@"
allprops=$(python3 -c "import json;print(' '.join(c['property_id'] for c in json.load(open('/verif/MANIFEST.json'))['checks']))")
out=$(mktemp -d /tmp/bxv-selftest-XXXX)
fail=0
run_one() { # name patch expect props
  name=$1; patch=$2; expect=$3; ps=$4
  if [ -n "${SELFTEST_ONLY:-}" ] && ! [[ $name =~ $SELFTEST_ONLY ]]; then return; fi
  wt=$out/wt-$name
  git -C /repo worktree add -q --detach $wt HEAD || return
  if ! git -C $wt apply $patch; then echo "SKIP $name: patch does not apply"; git -C /repo worktree remove --force $wt; return; fi
  viol=""
  for p in $ps; do
    BXV_REPO=$wt BXV_OUT_BASE=$out/out-$name /verif/bin/bxv check --property $p > $out/$name-$p.log 2>&1
    rc=$?
    if grep -q "cannot load" $out/$name-$p.log; then echo "BROKEN $name: does not compile any more (rebase the patch)"; fail=1; fi
    if [ $rc -ne 0 ]; then viol="$viol $p($(grep -c VIOLATION $out/$name-$p.log))"; fi
  done
  git -C /repo worktree remove --force $wt
  if [ "$expect" = fail ]; then
    if [ -n "$viol" ]; then echo "OK   must-fail $name: detected by$viol"; else echo "MISS must-fail $name: no check raised a violation"; fail=1; fi
  else
    if [ -z "$viol" ]; then echo "OK   must-pass $name"; else echo "FALSE-ALARM must-pass $name:$viol"; grep -h VIOLATION $out/$name-*.log | head -3; fail=1; fi
  fi
}
if [ "$mode" = benign ] || [ "$mode" = all ]; then
  for pf in /verif/selftest/benign/*.patch; do run_one $(basename $pf .patch) $pf pass "${props:-$allprops}"; done
fi
if [ "$mode" = seeded ] || [ "$mode" = all ]; then
  for d in /verif/seeded/*/; do n=$(basename $d); p=$(python3 -c "import json;print(json.load(open('$d/meta.json'))['property'])"); run_one $n $d/patch.diff fail "${props:-$p}"; done
fi
if [ "$mode" = mutants ] || [ "$mode" = all ]; then
  for pf in /verif/selftest/mutants/*.patch; do n=$(basename $pf .patch); p=$(head -1 ${pf%.patch}.txt | awk '{print $1}'); run_one $n $pf fail "${props:-$p}"; done
fi
git -C /repo worktree prune
rm -rf $out
exit $fail
