#!/usr/bin/env python3
"""Fill meta.json.confirmed_by_verif of every /verif/seeded/<name>/ from the
confirm.log and check-<id>.log files that tools/tryseed.sh left there."""
import json, glob, os, re, sys
for d in sorted(glob.glob('/verif/seeded/*/')):
    mp = os.path.join(d, 'meta.json')
    if not os.path.exists(mp): continue
    m = json.load(open(mp))
    cl = os.path.join(d, 'confirm.log')
    if not os.path.exists(cl): continue
    exits = re.findall(r'^exit=(\d+)', open(cl).read(), re.M)
    checks = {}
    for lp in sorted(glob.glob(os.path.join(d, 'check-*.log'))):
        pid = os.path.basename(lp)[6:-4]
        v = [l for l in open(lp).read().splitlines() if l.startswith('VIOLATION')]
        first = [re.sub(r'.*obligation=', '', l) for l in v[:4]]
        checks[pid] = {'violations': len(v), 'first': first,
                       'replayed_input': bool(v) and not all(l.rstrip().endswith('no-failing-input-found') for l in v)}
    m['confirmed_by_verif'] = {
        'how': 'tools/tryseed.sh: scratch worktree of /repo HEAD; (1) demo on unchanged code, (2) patch + go build + full test suite, (3) demo with patch; then the patch is applied to /repo, the checks run, and it is undone',
        'demo_on_unchanged_exit': exits[0] if len(exits) > 0 else None,
        'suite_with_change_exit': exits[1] if len(exits) > 1 else None,
        'demo_with_change_exit': exits[2] if len(exits) > 2 else None,
        'checks': checks}
    json.dump(m, open(mp, 'w'), indent=1)
    print(os.path.basename(d.rstrip('/')), exits, {k: (c['violations'], c['replayed_input']) for k, c in checks.items()})
