#!/bin/bash
# Run every registered check (no cache) and summarise. Use after every engine/spec change.
cd /verif
ids=$(python3 -c "import json;print(' '.join(c['property_id'] for c in json.load(open('MANIFEST.json'))['checks']))")
[ -n "$1" ] && ids="$@"
fail=0
for p in $ids; do
  out=$(BXV_NOCACHE=1 ./bin/bxv check --property $p 2>&1); rc=$?
  echo "$out" | tail -1
  if [ $rc -ne 0 ]; then fail=1; echo "$out" | grep -E "VIOLATION|KNOWN|error|cannot" | head -5; fi
done
exit $fail
