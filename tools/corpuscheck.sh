#!/bin/bash
# Every patch of the selftest corpora (seeded/, selftest/mutants, benign,
# imprecision) must still apply to /repo's HEAD and compile with and without
# the verif tag: a patch that no longer compiles would be "detected" (or would
# "alarm") for the wrong reason. Run after every commit to /repo.
export GOFLAGS=-mod=mod GOPROXY=off GOSUMDB=off GOTOOLCHAIN=local
wt=$(mktemp -d /tmp/bxv-corpus-XXXX)/wt
git -C /repo worktree add -q --detach $wt HEAD || exit 2
bad=0
for pf in /verif/seeded/*/patch.diff /verif/selftest/mutants/*.patch /verif/selftest/benign/*.patch /verif/selftest/imprecision/*.patch; do
  ( cd $wt && git apply $pf 2>/dev/null && go build -tags verif ./... 2>/dev/null && go build ./... 2>/dev/null ) || { echo "BAD $pf"; bad=1; }
  git -C $wt checkout -q -- . ; git -C $wt clean -fdq
done
git -C /repo worktree remove --force $wt; rmdir $(dirname $wt)
echo "corpus: bad=$bad"
exit $bad
