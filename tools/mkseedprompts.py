#!/usr/bin/env python3
"""(SEED_FOCUS=<text> in the environment adds a sentence telling the agents where in the code to look.)
Write the prompts for a round of seeding sub-agents (DESIGN §9): one per
property id given on the command line, each told the ideas already used for
that property (from /verif/seeded/*/meta.json) and asked for a different one.
usage: mkseedprompts.py <round-tag> <id>...   -> /tmp/seedout-<tag>/<id>.prompt
The agents get a scratch worktree /tmp/seed-<tag>-<id> (created by the caller,
contract and hook files removed) and nothing from /verif."""
import json, sys, glob, os
focus = os.environ.get('SEED_FOCUS', '')
tag = sys.argv[1]; ids = sys.argv[2:]
hints = {
 'C01': 'an unusual datum shape or kind, a particular operator x representation combination, a particular element position in a list, an interaction of `in` with maps/slices/strings, two cooperating code sites that each look fine alone',
 'C02': 'a particular kind x literal spelling (leading +, hex, exponent, underscore, whitespace, overflow, -0, NaN, precision limits), named types, json.Number, or a width (int8 vs int64, float32 vs float64) - an equality that is decided in the wrong type or an unreadable literal that is not reported as an error',
 'C03': 'a particular nesting of not/and/or, an error in a particular operand position, short-circuit order, or a double negation',
 'C04': 'a particular operator pair (==/!=, in/not in, contains/not contains, is empty/is not empty, matches/not matches) on a particular kind of value (nil, absent key, empty container, map, string, []byte) where the negated form is no longer the exact complement, or where `contains` and `in` differ',
 'C05': 'a particular path depth, data shape (map inside slice inside struct, pointer or interface in between), operator, quantifier over an absent key, or option combination',
 'C06': 'a particular binding mode, nesting/shadowing, element position, an error at a particular element, map vs list, array vs slice',
 'C07': 'a particular spelling (dotted, bracket ["k"], JSON pointer "/a/b", numeric .0 index, ~0 ~1 escapes, keys with odd characters) in a particular position (first part, last part, inside any/all, on the value side of `in`)',
 'C08': 'a particular struct shape (unexported field, `bexpr:"-"`, renamed field, embedded struct, pointer to struct, struct inside slice or map) and operator (is empty, ==, in, matches, any/all) through which hidden content influences a result or an error message',
 'C09': 'an unusual datum kind, a nil at a particular depth, a particular operator x kind combination, an empty container, a quantifier over odd data',
 'C10': 'a particular byte sequence or option; think of CreateFilter as well as CreateEvaluator, and of what happens after creation (Evaluate(nil), ExpressionDump)',
 'C11': 'a particular budget value relative to the number of parser steps (off-by-one, n=1, n=0, very large n), the forwarding of the option from bexpr to the grammar package, or a particular parser construct',
 'C12': 'two goroutines sharing one Evaluator or Filter with a particular expression shape (matches, in over a list, any/all, selectors with several parts) - some write to shared memory that only shows under -race or as a rare wrong answer',
 'C13': 'a particular sequence of Evaluate calls on the same evaluator (different data, an error first, a regexp first) after which a later call answers differently from a fresh evaluator, or a call that modifies the datum or the syntax tree',
 'C14': 'a map with a particular number/kind of keys, a particular binding mode, an error at one entry and true at another, Filter.Execute over a map - something that makes the outcome depend on map iteration order',
 'C15': 'a particular token adjacency (keyword followed by parenthesis, missing/extra whitespace, keyword as identifier prefix), number or string form, nesting, or precedence (not/and/or) - hand-edit grammar/grammar.go consistently (pigeon is not installed); the existing grammar tests must still pass',
 'C16': 'a particular literal (quotes, backslashes, backticks, pointer-shaped strings, numbers), whitespace layout, redundant parentheses or operator precedence for which printing an expression and parsing it back gives a different tree, or for which a quoted literal no longer compares equal to exactly its content',
 'C17': 'a particular input kind (array vs slice vs map, pointer elements, interface elements), element order, the first-error rule, nil filter, empty input, or modification of the input',
 'C18': 'a particular combination or order of options, repetition of an option, neutral settings, nil hook, or an option not reaching a later Evaluate call',
 'C19': 'a particular node kind, operator, nesting level/indentation, literal content (quotes, newlines, unicode), selector type or binding mode for which ExpressionDump / Selector.String / the String methods print something other than the tree',
 'C20': 'a discrepancy between grammar/grammar.peg and the table/actions in grammar/grammar.go (one of them edited without the other: a repetition, a character class, a literal, ignore-case flag, an action body, a label) that the existing tests do not exercise',
}
used = {}
for mp in sorted(glob.glob('/verif/seeded/*/meta.json')):
    m = json.load(open(mp))
    used.setdefault(m['property'], []).append(m.get('summary', '')[:400])
out = '/tmp/seedout-%s' % tag
os.makedirs(out, exist_ok=True)
P = '''You are working in a scratch git worktree of the Go library hashicorp/go-bexpr at {wt} (module github.com/hashicorp/go-bexpr; a boolean filter-expression language: a pigeon-generated PEG parser in grammar/ (grammar.peg -> grammar.go, plus ast.go) and a reflection-based evaluator in evaluate.go, bexpr.go, filter.go, options.go, coerce.go). The sandbox is OFFLINE: prefix every go command with `export GOFLAGS=-mod=mod GOPROXY=off GOSUMDB=off GOTOOLCHAIN=local;`. Work ONLY inside {wt} and {out}/{id}. Do NOT read or touch /verif or /repo. pigeon is NOT installed: if you change the grammar you must hand-edit grammar/grammar.go (and, if you like, grammar.peg).

A semantic property the library is supposed to satisfy:

"{title}. {statement}"

YOUR TASK: devise ONE realistic change to the library's NON-test source code (a plausible refactoring slip, optimisation, or bug) that BREAKS this property while (a) still compiling, and (b) still passing the complete existing test suite (`go test -count=1 ./...` in {wt}). The breakage must need something SPECIFIC to manifest — {hint} — not something ordinary use would expose at once. {focus}Keep the change small (a few lines). Prefer subtle over blunt: ideally the changed code still looks locally correct. Others already tried the following ideas, so pick a DIFFERENT one (different function or different mechanism):
{used}

Deliverables (write them to {out}/{id}/):
1. patch.diff — `git diff` output of your change (must apply with `git apply` at the repo root of a clean checkout of the same commit). Only non-test source files (do not include the deletions of contracts_verif.go / hooks_verif.go files that are already present in the worktree status).
2. demo_test.go — a Go test (state in meta.json which package directory it belongs in: "." for package bexpr, "grammar" for package grammar) that FAILS with your change applied and PASSES on the unchanged code. Use the public API where possible; recover from panics inside the test and report them as failures.
3. meta.json — {{"property":"{id}","summary":"...","needs_to_manifest":"...","demo_dir":".","demo_run":"go test -run <Name> .","files_changed":[...]}}.

You MUST verify all of this yourself before finishing: (i) with the change, `go build ./... && go test -count=1 ./...` passes; (ii) with the change, the demo test fails; (iii) after reverting the change, the demo test passes. Leave the worktree with your change reverted when done — the deliverables in {out}/{id} are what counts. Finish with a short report: what you changed, why it escapes the existing tests, and the exact commands you ran with their outcomes.'''
for l in open('/verif/properties.jsonl'):
    d = json.loads(l)
    id = d['id']
    if id not in ids: continue
    os.makedirs('%s/%s' % (out, id), exist_ok=True)
    u = '\n'.join('  - ' + x for x in used.get(id, [])) or '  (none yet)'
    open('%s/%s.prompt' % (out, id), 'w').write(P.format(id=id, wt='/tmp/seed-%s-%s' % (tag, id), out=out, title=id + ' — ' + d['title'], statement=d['statement'], hint=hints[id], used=u, focus=(focus + ' ' if focus else '')))
print('prompts in', out)
