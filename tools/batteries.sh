#!/bin/bash
# Run the replay batteries of the given properties (default: all) on /repo's
# working tree, outside any check: a battery that reports a failing input on
# the unchanged tree is a broken oracle (or a genuine defect) and must be
# looked at before it is trusted as a replay source.
# usage: batteries.sh [ids...]      (BXV_TIER=thorough for the thorough bounds)
export GOFLAGS=-mod=mod GOPROXY=off GOSUMDB=off GOTOOLCHAIN=local
repo=${BXV_REPO:-/repo}
ids=${@:-C01 C02 C03 C04 C05 C06 C07 C08 C09 C10 C11 C12 C13 C14 C15 C16 C17 C18 C19}
tmp=$(mktemp -d /tmp/bxv-batt-XXXX)
cat > $tmp/ov.json <<J
{"Replace": {"$repo/zz_bxv_replay_test.go": "/verif/replay/zz_bxv_replay_test.go", "$repo/zz_bxv_c11_test.go": "/verif/replay/zz_bxv_c11_test.go", "$repo/zz_bxv_refparse_test.go": "/verif/replay/zz_bxv_refparse_test.go"}}
J
rc=0
for p in $ids; do
  race=""; [ $p = C12 ] && race="-race"
  t0=$(date +%s)
  (cd $repo && BXV_PROP=$p BXV_OUT=$tmp/$p.json go test -tags verif -overlay $tmp/ov.json -vet=off -count=1 -timeout 1500s $race -run '^TestBxvBattery$' . > $tmp/$p.log 2>&1)
  t1=$(date +%s)
  python3 - $p $tmp/$p.json $((t1-t0)) $tmp/$p.log <<'PY'
import json,sys
p,f,secs,log=sys.argv[1:5]
try:
    d=json.load(open(f))
    fl=d.get('failures') or []
    print(f"{p}: {d.get('cases')} cases, {len(fl)} failing, {secs}s")
    for x in fl[:4]: print("   ", json.dumps(x)[:400])
    sys.exit(1 if fl else 0)
except Exception as e:
    print(f"{p}: battery did not produce a result ({e}); log tail:"); print(open(log).read()[-1500:]); sys.exit(2)
PY
  [ $? -ne 0 ] && rc=1
done
rm -rf $tmp
exit $rc
