#!/bin/bash
# usage: tryseed.sh <name> <srcdir with patch.diff demo_test.go meta.json> <props...>
# Confirms a seeded change in a scratch worktree, then runs the checks against it on /repo and undoes it.
set -u
name=$1; src=$2; shift 2; props="$@"
export GOFLAGS=-mod=mod GOPROXY=off GOSUMDB=off GOTOOLCHAIN=local
wt=/tmp/tryseed-$name
rm -rf $wt; git -C /repo worktree prune; git -C /repo worktree add -q --detach $wt HEAD || exit 2
demo_dir=$(python3 -c "import json;print(json.load(open('$src/meta.json')).get('demo_dir','.'))")
out=/verif/seeded/$name; mkdir -p $out
cp $src/patch.diff $src/demo_test.go $src/meta.json $out/ 2>/dev/null
log=$out/confirm.log; : > $log
( cd $wt && cp $src/demo_test.go $demo_dir/zz_seed_demo_test.go
  echo "== demo on unchanged code (must pass)" >> $log
  go test -count=1 -vet=off ./$demo_dir/ >> $log 2>&1; echo "exit=$?" >> $log
  rm $demo_dir/zz_seed_demo_test.go
  git apply $src/patch.diff || { echo "PATCH DOES NOT APPLY" >> $log; exit 3; }
  echo "== build + existing suite with change (must pass)" >> $log
  go build ./... >> $log 2>&1 && go test -count=1 -vet=off ./... >> $log 2>&1; echo "exit=$?" >> $log
  cp $src/demo_test.go $demo_dir/zz_seed_demo_test.go
  echo "== demo with change (must fail)" >> $log
  go test -count=1 -vet=off ./$demo_dir/ 2>&1 | tail -15 >> $log; echo "exit=${PIPESTATUS[0]}" >> $log
)
git -C /repo worktree remove --force $wt
grep "exit=" $log | tr '\n' ' '; echo
# run checks on /repo
git -C /repo apply $src/patch.diff || { echo "cannot apply to /repo"; exit 3; }
for p in $props; do
  (cd /verif && BXV_OUT_BASE=/tmp/tryseed-out-$name timeout 900 ./bin/bxv check --property $p > $out/check-$p.log 2>&1; echo "check $p exit=$? $(grep -c VIOLATION $out/check-$p.log) violations: $(grep VIOLATION $out/check-$p.log | sed 's/.*obligation=//' | head -4 | tr '\n' ';')")
done
git -C /repo apply -R $src/patch.diff
git -C /repo status --short
rm -rf /tmp/tryseed-out-$name   # evidence and replays of a seeded run never land in /verif/evidence
