; The reference semantics of the expression language, transcribed from the
; property statements (DESIGN §6). Recursive spec functions are uninterpreted;
; their defining equation F.unfold is instantiated by bxv for the application
; terms that occur in an obligation (fuel 1).
(echo "phase:base")
(echo "strlit:s.ALL ALL")
(echo "strlit:s.ANY ANY")
(echo "strlit:s.IndexAndValue Index & Value")
(echo "strlit:s.bexprTag bexpr")
(echo "bundle:UHeap deref.Any")
(echo "phase:spec")

; ---- AST accessors -----------------------------------------------------------
(define-fun UE.p ((e Any)) Int (unbox.*grammar.UnaryExpression e))
(define-fun BE.p ((e Any)) Int (unbox.*grammar.BinaryExpression e))
(define-fun ME.p ((e Any)) Int (unbox.*grammar.MatchExpression e))
(define-fun CE.p ((e Any)) Int (unbox.*grammar.CollectionExpression e))
(define-fun UE.op ((p Int) (h ASTHeap)) Int (select (ASTHeap!grammar.UnaryExpression.Operator h) p))
(define-fun UE.operand ((p Int) (h ASTHeap)) Any (select (ASTHeap!grammar.UnaryExpression.Operand h) p))
(define-fun BE.op ((p Int) (h ASTHeap)) Int (select (ASTHeap!grammar.BinaryExpression.Operator h) p))
(define-fun BE.left ((p Int) (h ASTHeap)) Any (select (ASTHeap!grammar.BinaryExpression.Left h) p))
(define-fun BE.right ((p Int) (h ASTHeap)) Any (select (ASTHeap!grammar.BinaryExpression.Right h) p))
(define-fun ME.op ((p Int) (h ASTHeap)) Int (select (ASTHeap!grammar.MatchExpression.Operator h) p))
(define-fun ME.path ((p Int) (h ASTHeap)) Sl.Str (select (ASTHeap!grammar.Selector.Path h) (emb.grammar.MatchExpression.Selector p)))
(define-fun ME.val ((p Int) (h ASTHeap)) Int (select (ASTHeap!grammar.MatchExpression.Value h) p))
(define-fun ME.raw ((p Int) (h ASTHeap)) Str (select (ASTHeap!grammar.MatchValue.Raw h) (select (ASTHeap!grammar.MatchExpression.Value h) p)))
(define-fun CE.op ((p Int) (h ASTHeap)) Str (select (ASTHeap!grammar.CollectionExpression.Op h) p))
(define-fun CE.path ((p Int) (h ASTHeap)) Sl.Str (select (ASTHeap!grammar.Selector.Path h) (emb.grammar.CollectionExpression.Selector p)))
(define-fun CE.inner ((p Int) (h ASTHeap)) Any (select (ASTHeap!grammar.CollectionExpression.Inner h) p))
(define-fun CE.mode ((p Int) (h ASTHeap)) Str (select (ASTHeap!grammar.CollectionNameBinding.Mode h) (emb.grammar.CollectionExpression.NameBinding p)))
(define-fun CE.default ((p Int) (h ASTHeap)) Str (select (ASTHeap!grammar.CollectionNameBinding.Default h) (emb.grammar.CollectionExpression.NameBinding p)))
(define-fun CE.index ((p Int) (h ASTHeap)) Str (select (ASTHeap!grammar.CollectionNameBinding.Index h) (emb.grammar.CollectionExpression.NameBinding p)))
(define-fun CE.value ((p Int) (h ASTHeap)) Str (select (ASTHeap!grammar.CollectionNameBinding.Value h) (emb.grammar.CollectionExpression.NameBinding p)))

; ---- abstract options (C18): what an evaluation depends on ---------------------
(declare-datatypes ((AOpts 0)) (((mk.AOpts (ao.tag Str) (ao.hook Fn) (ao.hasUnknown Bool) (ao.unknown Any) (ao.locals Sl.S.bexpr.localVariable)))))
(define-fun absOpts ((o S.bexpr.options) (u UHeap)) AOpts
  (mk.AOpts (S.bexpr.options.withTagName o) (S.bexpr.options.withHookFn o)
            (not (= (S.bexpr.options.withUnknown o) 0))
            (select (UHeap!deref.Any u) (S.bexpr.options.withUnknown o))
            (S.bexpr.options.withLocalVariables o)))
; written with the generated zero.S / with.S.f helpers so that a new field of `options` does not invalidate the spec (it keeps its zero value and every option leaves it alone)
(define-fun defaultOpts () S.bexpr.options (with.S.bexpr.options.withTagName zero.S.bexpr.options s.bexprTag))
; one option applied to an options record: each constructor touches its own field only
(define-fun applyOpt ((f Fn) (o S.bexpr.options)) S.bexpr.options
  (ite ((_ is fn.bexpr.WithTagName$1) f)
       (with.S.bexpr.options.withTagName o (fn.bexpr.WithTagName$1.c0 f))
  (ite ((_ is fn.bexpr.WithHookFn$1) f)
       (with.S.bexpr.options.withHookFn o (fn.bexpr.WithHookFn$1.c0 f))
  (ite ((_ is fn.bexpr.WithMaxExpressions$1) f)
       (with.S.bexpr.options.withMaxExpressions o (fn.bexpr.WithMaxExpressions$1.c0 f))
  (ite ((_ is fn.bexpr.WithUnknownValue$1) f)
       (with.S.bexpr.options.withUnknown o (fn.bexpr.WithUnknownValue$1.c0 f))
  (ite ((_ is fn.bexpr.WithLocalVariable$1) f)
       (with.S.bexpr.options.withLocalVariables o
          (Sl.S.bexpr.localVariable.snoc (S.bexpr.options.withLocalVariables o)
             (with.S.bexpr.localVariable.value (with.S.bexpr.localVariable.path (with.S.bexpr.localVariable.name zero.S.bexpr.localVariable (fn.bexpr.WithLocalVariable$1.c0 f)) (fn.bexpr.WithLocalVariable$1.c1 f)) (fn.bexpr.WithLocalVariable$1.c2 f))))
       o))))))
; the left fold of applyOpt over an option list, from the defaults; nil options are skipped (applyOpt fn.nil = id)
(declare-fun FoldOpts (Sl.Fn) S.bexpr.options)
(assert (= (FoldOpts Sl.Fn.empty) defaultOpts))
(assert (forall ((s Sl.Fn) (f Fn)) (! (= (FoldOpts (Sl.Fn.snoc s f)) (applyOpt f (FoldOpts s))) :pattern ((FoldOpts (Sl.Fn.snoc s f))))))

; ---- resolution of selectors (C05, C06) ------------------------------------------
(declare-datatypes ((GetRes 0)) (((G.ok (G.val Any)) (G.nf) (G.err))))
(declare-fun PSGet (Any Sl.Str Str Fn) GetRes)            ; A-PS
(define-fun psres ((val Any) (err Any)) GetRes (ite (= err nilAny) (G.ok val) (ite (isNotFound err) G.nf G.err)))
(declare-datatypes ((Res 0)) (((R.val (R.v Any)) (R.absent) (R.err))))
(define-fun resOf ((val Any) (present Bool) (err Any)) Res (ite (not (= err nilAny)) R.err (ite present (R.val val) R.absent)))
; full dereference of a reflect.Value (derefValue)
(declare-fun derefRV (RV) RV)
(declare-fun derefOK (RV) Bool)
(define-fun derefRV.unfold ((v RV)) Bool
  (and (= (derefRV v) (ite (= (kind v) 22) (ite (isnil v) v (derefRV (elem v))) v))
       (= (derefOK v) (ite (= (kind v) 22) (ite (isnil v) false (derefOK (elem v))) true))))
(define-fun getValOrNil ((g GetRes)) Any (ite ((_ is G.ok) g) (G.val g) nilAny))
(define-fun parentIsMap ((d Any) (pp Sl.Str) (tag Str) (hook Fn)) Bool
  (= (kind (derefRV (valueOf (getValOrNil (PSGet d pp tag hook))))) 21))
(define-fun ResolveGlobal ((d Any) (p Sl.Str) (ao AOpts)) Res
  (ite ((_ is G.ok) (PSGet d p (ao.tag ao) (ao.hook ao))) (R.val (G.val (PSGet d p (ao.tag ao) (ao.hook ao))))
  (ite ((_ is G.nf) (PSGet d p (ao.tag ao) (ao.hook ao)))
       (ite (ao.hasUnknown ao) (R.val (ao.unknown ao))
       (ite (and (>= (Sl.Str.len p) 2) (parentIsMap d (Sl.Str.sub p 0 (- (Sl.Str.len p) 1)) (ao.tag ao) (ao.hook ao))) R.absent R.err))
       R.err)))
(declare-fun ResolveFrom (Any Sl.Str AOpts Int) Res)
(define-fun ResolveFrom.unfold ((d Any) (p Sl.Str) (ao AOpts) (j Int)) Bool
  (= (ResolveFrom d p ao j)
     (ite (< j 0) (ResolveGlobal d p ao)
     (ite (not (= (S.bexpr.localVariable.name (Sl.S.bexpr.localVariable.at (ao.locals ao) j)) (Sl.Str.at p 0)))
          (ResolveFrom d p ao (- j 1))
     (ite (= (Sl.Str.len (S.bexpr.localVariable.path (Sl.S.bexpr.localVariable.at (ao.locals ao) j))) 0)
          (ite (> (Sl.Str.len p) 1) R.err (R.val (S.bexpr.localVariable.value (Sl.S.bexpr.localVariable.at (ao.locals ao) j))))
          (ResolveFrom d (Sl.Str.cat (S.bexpr.localVariable.path (Sl.S.bexpr.localVariable.at (ao.locals ao) j)) (Sl.Str.sub p 1 (Sl.Str.len p))) ao (- j 1)))))))
(define-fun Resolve ((d Any) (p Sl.Str) (ao AOpts)) Res
  (ite (and (not (= (Sl.Str.len p) 0)) (> (Sl.S.bexpr.localVariable.len (ao.locals ao)) 0))
       (ResolveFrom d p ao (- (Sl.S.bexpr.localVariable.len (ao.locals ao)) 1))
       (ResolveGlobal d p ao)))

; ---- match operators (C02, C04) ---------------------------------------------------
(define-fun EqSpec ((v RV) (lit Str)) Outcome
  (ite (= (kind v) 1) (ite (okBool lit) (b3 (= (boolOf v) (specParseBool lit))) O.E)
  (ite (isIntK (kind v)) (ite (okInt lit 0 64) (b3 (= (intOf v) (specParseInt lit 0 64))) O.E)
  (ite (isUintK (kind v)) (ite (okUint lit 0 64) (b3 (= (uintOf v) (specParseUint lit 0 64))) O.E)
  (ite (= (kind v) 13) (ite (okFloat lit 32) (b3 (fp.eq (to32 (f64Of v)) (to32 (specParseFloat lit 32)))) O.E)
  (ite (= (kind v) 14) (ite (okFloat lit 64) (b3 (fp.eq (f64Of v) (specParseFloat lit 64))) O.E)
  (ite (= (kind v) 24) (b3 (= (strOf v) lit)) O.E)))))))
(define-fun EmptySpec ((v RV)) Outcome
  (ite (or (= (kind v) 17) (= (kind v) 18) (= (kind v) 21) (= (kind v) 23) (= (kind v) 24)) (b3 (= (rlen v) 0)) O.E))
(define-fun MatchesSpec ((v RV) (raw Str)) Outcome
  (ite (not (valid v)) O.E
  (ite (not (convertible (rtype v) T.bytes)) O.E
  (ite (not (reOK raw)) O.E (b3 (reMatchC (reOf raw) (bytesOf v)))))))
(declare-fun InSpec (RV Str) Outcome)      ; refined in 23-in.smt2
; json.Number narrowing, then one pointer indirection
(declare-datatypes ((NRes 0)) (((N.rv (N.v RV)) (N.err))))
(define-fun Narrow ((a Any)) NRes
  (ite (= (dyn a) tag.json.Number)
       (ite (okInt (unbox.json.Number a) 10 64) (N.rv (indirect (valueOf (box.int64 (specParseInt (unbox.json.Number a) 10 64)))))
       (ite (okFloat (unbox.json.Number a) 64) (N.rv (indirect (valueOf (box.float64 (specParseFloat (unbox.json.Number a) 64))))) N.err))
       (N.rv (indirect (valueOf a)))))
(define-fun baseOp ((op Int)) Int (ite (or (= op 0) (= op 1)) 0 (ite (or (= op 2) (= op 3)) 2 (ite (or (= op 4) (= op 5)) 4 6))))
(define-fun negatedOp ((op Int)) Bool (or (= op 1) (= op 3) (= op 5) (= op 7)))
(define-fun MatchPos ((bop Int) (v RV) (raw Str)) Outcome
  (ite (= bop 0) (EqSpec v raw) (ite (= bop 2) (InSpec v raw) (ite (= bop 4) (EmptySpec v) (MatchesSpec v raw)))))
(define-fun EvalMatchVal ((op Int) (a Any) (raw Str)) Outcome
  (ite (or (< op 0) (> op 7)) O.E
  (ite ((_ is N.err) (Narrow a)) O.E
  (ite (negatedOp op) (neg3 (MatchPos (baseOp op) (N.v (Narrow a)) raw)) (MatchPos (baseOp op) (N.v (Narrow a)) raw)))))
(define-fun EvalMatchP ((p Int) (d Any) (ao AOpts) (h ASTHeap)) Outcome
  (ite ((_ is R.err) (Resolve d (ME.path p h) ao)) O.E
  (ite ((_ is R.absent) (Resolve d (ME.path p h) ao)) (b3 (Disposition (ME.op p h)))
       (EvalMatchVal (ME.op p h) (R.v (Resolve d (ME.path p h) ao)) (ME.raw p h)))))

; ---- quantifiers (C06, C14) --------------------------------------------------------
(declare-fun EvalCollP (Int Any AOpts ASTHeap) Outcome)   ; refined in 24-coll.smt2

; ---- the evaluator (C01, C03) -------------------------------------------------------
(declare-fun Eval (Any Any AOpts ASTHeap) Outcome)
(define-fun Eval.unfold ((e Any) (d Any) (ao AOpts) (h ASTHeap)) Bool
  (= (Eval e d ao h)
     (ite (= (dyn e) tag.*grammar.UnaryExpression)
          (ite (= (UE.op (UE.p e) h) 0) (neg3 (Eval (UE.operand (UE.p e) h) d ao h)) O.E)
     (ite (= (dyn e) tag.*grammar.BinaryExpression)
          (ite (= (BE.op (BE.p e) h) 0)
               (ite (= (Eval (BE.left (BE.p e) h) d ao h) O.T) (Eval (BE.right (BE.p e) h) d ao h) (Eval (BE.left (BE.p e) h) d ao h))
          (ite (= (BE.op (BE.p e) h) 1)
               (ite (= (Eval (BE.left (BE.p e) h) d ao h) O.F) (Eval (BE.right (BE.p e) h) d ao h) (Eval (BE.left (BE.p e) h) d ao h))
               O.E))
     (ite (= (dyn e) tag.*grammar.MatchExpression) (EvalMatchP (ME.p e) d ao h)
     (ite (= (dyn e) tag.*grammar.CollectionExpression) (EvalCollP (CE.p e) d ao h)
          O.E))))))
; C18: the four option constructors a user can pass (WithLocalVariable is internal)
(define-fun userOpt ((f Fn)) Bool
  (or (= f fn.nil) ((_ is fn.bexpr.WithTagName$1) f) ((_ is fn.bexpr.WithHookFn$1) f) ((_ is fn.bexpr.WithUnknownValue$1) f) ((_ is fn.bexpr.WithMaxExpressions$1) f)))
(define-fun sameCtor ((f Fn) (g Fn)) Bool
  (or (and (= f fn.nil) (= g fn.nil))
      (and ((_ is fn.bexpr.WithTagName$1) f) ((_ is fn.bexpr.WithTagName$1) g))
      (and ((_ is fn.bexpr.WithHookFn$1) f) ((_ is fn.bexpr.WithHookFn$1) g))
      (and ((_ is fn.bexpr.WithUnknownValue$1) f) ((_ is fn.bexpr.WithUnknownValue$1) g))
      (and ((_ is fn.bexpr.WithMaxExpressions$1) f) ((_ is fn.bexpr.WithMaxExpressions$1) g))))
; ---- parsing (C10, C11): accept/reject as a function of (bytes, budget); A-ENGINE --
(declare-fun parseAccepts (Sl.Int Int) Bool)
(declare-fun parseTree (Sl.Int) Any)
(declare-fun gBudget (Sl.Fn) Int)     ; the MaxExpressions budget carried by a parser option list (0 = unlimited)
; the 17 expression node types of the pigeon rule table
(define-fun knownExprTag ((t Int)) Bool
  (or (= t tag.*grammar.actionExpr) (= t tag.*grammar.andCodeExpr) (= t tag.*grammar.andExpr) (= t tag.*grammar.anyMatcher) (= t tag.*grammar.charClassMatcher)
      (= t tag.*grammar.choiceExpr) (= t tag.*grammar.labeledExpr) (= t tag.*grammar.litMatcher) (= t tag.*grammar.notCodeExpr) (= t tag.*grammar.notExpr)
      (= t tag.*grammar.oneOrMoreExpr) (= t tag.*grammar.recoveryExpr) (= t tag.*grammar.ruleRefExpr) (= t tag.*grammar.seqExpr) (= t tag.*grammar.throwExpr)
      (= t tag.*grammar.zeroOrMoreExpr) (= t tag.*grammar.zeroOrOneExpr)))
; parser option lists (C10, C11): closed world of the generated parser's option constructors
(define-fun knownGOpt ((f Fn)) Bool
  (or ((_ is fn.grammar.MaxExpressions$1) f) ((_ is fn.grammar.Entrypoint$1) f) ((_ is fn.grammar.AllowInvalidUTF8$1) f) ((_ is fn.grammar.Recover$1) f) ((_ is fn.grammar.GlobalStore$1) f)))
(declare-fun wfGOpts (Sl.Fn) Bool)
(assert (wfGOpts Sl.Fn.empty))
(assert (forall ((s Sl.Fn) (i Int)) (! (=> (and (wfGOpts s) (<= 0 i) (< i (Sl.Fn.len s))) (knownGOpt (Sl.Fn.at s i))) :pattern ((wfGOpts s) (Sl.Fn.at s i)))))
(assert (forall ((s Sl.Fn) (x Fn)) (! (= (wfGOpts (Sl.Fn.snoc s x)) (and (wfGOpts s) (knownGOpt x))) :pattern ((wfGOpts (Sl.Fn.snoc s x))))))
(declare-fun gFoldMax (Sl.Fn Int) Int)
(assert (forall ((i Int)) (! (= (gFoldMax Sl.Fn.empty i) i) :pattern ((gFoldMax Sl.Fn.empty i)))))
(assert (forall ((s Sl.Fn) (f Fn) (i Int)) (! (= (gFoldMax (Sl.Fn.snoc s f) i) (ite ((_ is fn.grammar.MaxExpressions$1) f) (fn.grammar.MaxExpressions$1.c0 f) (gFoldMax s i))) :pattern ((gFoldMax (Sl.Fn.snoc s f) i)))))
(assert (forall ((s Sl.Fn)) (! (= (gBudget s) (gFoldMax s 0)) :pattern ((gBudget s)))))
(declare-fun gFoldRecover (Sl.Fn Bool) Bool)
(assert (forall ((b Bool)) (! (= (gFoldRecover Sl.Fn.empty b) b) :pattern ((gFoldRecover Sl.Fn.empty b)))))
(assert (forall ((s Sl.Fn) (f Fn) (b Bool)) (! (= (gFoldRecover (Sl.Fn.snoc s f) b) (ite ((_ is fn.grammar.Recover$1) f) (fn.grammar.Recover$1.c0 f) (gFoldRecover s b))) :pattern ((gFoldRecover (Sl.Fn.snoc s f) b)))))
; ---- actions (C15, C07): a parsed []any of strings as a []string ---------------------
(declare-fun strsOf (Sl.Any) Sl.Str)
(declare-fun allStrings (Sl.Any) Bool)
(assert (= (strsOf Sl.Any.empty) Sl.Str.empty))
(assert (forall ((s Sl.Any) (x Any)) (! (= (strsOf (Sl.Any.snoc s x)) (Sl.Str.snoc (strsOf s) (unbox.string x))) :pattern ((strsOf (Sl.Any.snoc s x))))))
(assert (forall ((s Sl.Any) (i Int)) (! (=> (and (allStrings s) (<= 0 i) (< i (Sl.Any.len s))) (= (dyn (Sl.Any.at s i)) tag.string)) :pattern ((allStrings s) (Sl.Any.at s i)))))
; ... and conversely (allStrings is exactly "every element is a string"); used by the grammar typing derivation
(assert (forall ((s Sl.Any)) (! (=> (forall ((i Int)) (! (=> (and (<= 0 i) (< i (Sl.Any.len s))) (= (dyn (Sl.Any.at s i)) tag.string)) :pattern ((Sl.Any.at s i)))) (allStrings s)) :pattern ((allStrings s)))))
; pointerstructure.Parse (A-PS): RFC 6901 decoding of "/a/b~1c"
(declare-fun psParseOK (Str) Bool)
(declare-fun psParts (Str) Sl.Str)
