; Filter.Execute (C17, C14)
(echo "phase:spec")
(declare-fun seqOf (RV) Sl.RV)            ; the elements of a reflect slice value built by MakeSlice/Append
(declare-datatypes ((FOut 0)) (((F.ok (F.seq Sl.RV)) (F.err))))
(define-fun filterOut ((res Any) (err Any)) FOut (ite (not (= err nilAny)) F.err (F.ok (seqOf (valueOf res)))))
; the evaluator's abstract options
(define-fun evalAO ((tag Str) (hook Fn) (unk Int) (u UHeap)) AOpts
  (mk.AOpts tag hook (not (= unk 0)) (select (UHeap!deref.Any u) unk) Sl.S.bexpr.localVariable.nil))
; left-to-right filter with the first error ending it
(declare-fun FilterFrom (Any AOpts ASTHeap RV Int Sl.RV) FOut)
(define-fun FilterFrom.unfold ((ast Any) (ao AOpts) (h ASTHeap) (v RV) (i Int) (acc Sl.RV)) Bool
  (= (FilterFrom ast ao h v i acc)
     (ite (>= i (rlen v)) (F.ok acc)
     (ite (not (canIface (index v i))) F.err
     (ite (= (Eval ast (iface (index v i)) ao h) O.E) F.err
          (FilterFrom ast ao h v (+ i 1) (ite (= (Eval ast (iface (index v i)) ao h) O.T) (Sl.RV.snoc acc (index v i)) acc)))))))
