; Membership (in / contains), C01: map key, list element, substring.
(echo "phase:spec")
(declare-fun convertRV (RV Type) RV)
; the literal of an expression read for a value of kind k (C02)
(define-fun LitAny ((k Int) (raw Str)) Any
  (ite (= k 1) (box.bool (specParseBool raw))
  (ite (isIntK k) (box.int64 (specParseInt raw 0 64))
  (ite (isUintK k) (box.uint64 (specParseUint raw 0 64))
  (ite (= k 13) (box.float32 (to32 (specParseFloat raw 32)))
  (ite (= k 14) (box.float64 (specParseFloat raw 64))
       (box.string raw)))))))
(define-fun InMap ((v RV) (raw Str)) Outcome
  (ite (not (litOK (tkind (tkey (rtype v))) raw)) O.E
  (ite (not (convertible (rtype (valueOf (LitAny (tkind (tkey (rtype v))) raw))) (tkey (rtype v)))) O.E
       (b3 (valid (mapget v (convertRV (valueOf (LitAny (tkind (tkey (rtype v))) raw)) (tkey (rtype v)))))))))
(declare-fun InConcFrom (RV Str Int) Outcome)
(define-fun InConcFrom.unfold ((v RV) (raw Str) (i Int)) Bool
  (= (InConcFrom v raw i)
     (ite (>= i (rlen v)) O.F
     (ite (not (derefOK (index v i))) (InConcFrom v raw (+ i 1))
     (ite (= (EqSpec (derefRV (index v i)) raw) O.T) O.T (InConcFrom v raw (+ i 1)))))))
(declare-fun InIfaceFrom (RV Str Int) Outcome)
(define-fun InIfaceFrom.unfold ((v RV) (raw Str) (i Int)) Bool
  (= (InIfaceFrom v raw i)
     (ite (>= i (rlen v)) O.F
     (ite (or (not (derefOK (elem (index v i)))) (not (valid (derefRV (elem (index v i)))))) (InIfaceFrom v raw (+ i 1))
     (ite (not (litOK (kind (derefRV (elem (index v i)))) raw))
          (ite (litSynErr (kind (derefRV (elem (index v i)))) raw) (InIfaceFrom v raw (+ i 1)) O.E)
     (ite (= (eqFnOf (kind (derefRV (elem (index v i))))) fn.nil) O.E
     (ite (= (EqSpec (derefRV (elem (index v i))) raw) O.T) O.T (InIfaceFrom v raw (+ i 1)))))))))
(define-fun InList ((v RV) (raw Str)) Outcome
  (ite (= (tkind (tbase (telem (rtype v)))) 20) (InIfaceFrom v raw 0)
  (ite (not (litOK (tkind (tbase (telem (rtype v)))) raw)) O.E
  (ite (= (eqFnOf (tkind (tbase (telem (rtype v))))) fn.nil) O.E (InConcFrom v raw 0)))))
(define-fun InSpecDef ((v RV) (raw Str)) Outcome
  (ite (= (kind v) 21) (InMap v raw)
  (ite (or (= (kind v) 23) (= (kind v) 17)) (InList v raw)
  (ite (= (kind v) 24) (b3 (strContains (strOf v) raw)) O.E))))
(define-fun InSpec.unfold ((v RV) (raw Str)) Bool (= (InSpec v raw) (InSpecDef v raw)))
