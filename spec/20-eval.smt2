; Spec functions taken from the property statements (DESIGN §6).
(echo "phase:spec")
; C02: the comparison function selected for a kind
(define-fun eqFnOf ((k Int)) Fn
  (ite (= k 1) fn.bexpr.doEqualBool
  (ite (isIntK k) fn.bexpr.doEqualInt64
  (ite (isUintK k) fn.bexpr.doEqualUint64
  (ite (= k 13) fn.bexpr.doEqualFloat32
  (ite (= k 14) fn.bexpr.doEqualFloat64
  (ite (= k 24) fn.bexpr.doEqualString fn.nil)))))))
