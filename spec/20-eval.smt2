; Spec functions taken from the property statements (DESIGN §6).
(echo "phase:spec")
; C02: the comparison function selected for a kind
(define-fun eqFnOf ((k Int)) Fn
  (ite (= k 1) fn.bexpr.doEqualBool
  (ite (isIntK k) fn.bexpr.doEqualInt64
  (ite (isUintK k) fn.bexpr.doEqualUint64
  (ite (= k 13) fn.bexpr.doEqualFloat32
  (ite (= k 14) fn.bexpr.doEqualFloat64
  (ite (= k 24) fn.bexpr.doEqualString fn.nil)))))))
; C05: the documented table. ==, in, matches, is not empty: false; the rest true.
(define-fun Disposition ((op Int)) Bool (or (= op 1) (= op 3) (= op 4) (= op 7)))
(declare-fun strJoin (Sl.Str Str) Str)
(declare-fun strRepeat (Str Int) Str)
; the negated / positive counterpart of a match operator (0<->1, 2<->3, 4<->5, 6<->7)
(define-fun negOp ((op Int)) Int (ite (= (mod op 2) 0) (+ op 1) (- op 1)))
