; Quantifiers any / all (C06) with deterministic key order (C14).
(echo "phase:spec")
(declare-fun keysOf (Sl.RV RV) Bool)        ; ks is some enumeration of the keys of map v
(declare-fun sortedKeys (RV) Sl.RV)         ; the keys of v in ascending string order
(declare-fun idxOf (Sl.RV RV) Int)          ; position of a key in an enumeration
(assert (forall ((ks Sl.RV) (v RV) (k RV)) (! (=> (and (keysOf ks v) (valid (mapget v k))) (and (<= 0 (idxOf ks k)) (< (idxOf ks k) (Sl.RV.len ks)) (= (Sl.RV.at ks (idxOf ks k)) k))) :pattern ((keysOf ks v) (mapget v k)))))
(assert (forall ((ks Sl.RV) (v RV) (j Int)) (! (=> (and (keysOf ks v) (<= 0 j) (< j (Sl.RV.len ks))) (and (valid (mapget v (Sl.RV.at ks j))) (= (idxOf ks (Sl.RV.at ks j)) j) (inv.RV (mapget v (Sl.RV.at ks j))) (=> (canIface v) (canIface (Sl.RV.at ks j))))) :pattern ((keysOf ks v) (Sl.RV.at ks j)))))
; A-SORT: sorting any enumeration of the keys of v by the string order yields sortedKeys(v)
(assert (forall ((ks Sl.RV) (v RV) (f Fn))
  (! (=> (and (keysOf ks v) ((_ is fn.bexpr.evaluateCollectionExpression$1) f)) (= (sortedBy.Sl.RV ks f) (sortedKeys v)))
     :pattern ((sortedBy.Sl.RV ks f) (keysOf ks v)))))
(define-fun lvAlias ((name Str) (path Sl.Str)) S.bexpr.localVariable (with.S.bexpr.localVariable.path (with.S.bexpr.localVariable.name zero.S.bexpr.localVariable name) path))
(define-fun lvValue ((name Str) (val Any)) S.bexpr.localVariable (with.S.bexpr.localVariable.value (with.S.bexpr.localVariable.name zero.S.bexpr.localVariable name) val))
(define-fun snocIf ((c Bool) (l Sl.S.bexpr.localVariable) (x S.bexpr.localVariable)) Sl.S.bexpr.localVariable
  (ite c (Sl.S.bexpr.localVariable.snoc l x) l))
; list element i: the one-name form and the value name alias the element path, the index name is the position
(define-fun bindList ((l Sl.S.bexpr.localVariable) (p Int) (h ASTHeap) (i Int)) Sl.S.bexpr.localVariable
  (snocIf (not (= (CE.index p h) s.empty))
    (snocIf (not (= (CE.value p h) s.empty))
      (snocIf (not (= (CE.default p h) s.empty)) l (lvAlias (CE.default p h) (Sl.Str.snoc (CE.path p h) (specItoa i))))
      (lvAlias (CE.value p h) (Sl.Str.snoc (CE.path p h) (specItoa i))))
    (lvValue (CE.index p h) (box.int i))))
; map entry with key k: the value name aliases the entry path; the one-name form and the index name are the key itself
(define-fun bindMap ((l Sl.S.bexpr.localVariable) (p Int) (h ASTHeap) (k RV)) Sl.S.bexpr.localVariable
  (snocIf (not (= (CE.index p h) s.empty))
    (snocIf (not (= (CE.default p h) s.empty))
      (snocIf (not (= (CE.value p h) s.empty)) l (lvAlias (CE.value p h) (Sl.Str.snoc (CE.path p h) (strOf k))))
      (lvValue (CE.default p h) (iface k)))
    (lvValue (CE.index p h) (iface k))))
(define-fun withLocals ((ao AOpts) (l Sl.S.bexpr.localVariable)) AOpts
  (mk.AOpts (ao.tag ao) (ao.hook ao) (ao.hasUnknown ao) (ao.unknown ao) l))
(define-fun dupPlaceholder ((p Int) (h ASTHeap)) Bool (and (= (CE.mode p h) s.IndexAndValue) (= (CE.index p h) (CE.value p h))))
(declare-fun FoldColl (Int Any AOpts ASTHeap RV Sl.RV Int) Outcome)
(define-fun FoldColl.unfold ((p Int) (d Any) (ao AOpts) (h ASTHeap) (v RV) (ks Sl.RV) (i Int)) Bool
  (= (FoldColl p d ao h v ks i)
     (ite (>= i (rlen v)) (b3 (= (CE.op p h) s.ALL))
     (ite (dupPlaceholder p h) O.E
     (ite (= (Eval (CE.inner p h) d (withLocals ao (ite (= (kind v) 21) (bindMap (ao.locals ao) p h (Sl.RV.at ks i)) (bindList (ao.locals ao) p h i))) h) O.E) O.E
     (ite (or (and (= (Eval (CE.inner p h) d (withLocals ao (ite (= (kind v) 21) (bindMap (ao.locals ao) p h (Sl.RV.at ks i)) (bindList (ao.locals ao) p h i))) h) O.T) (= (CE.op p h) s.ANY))
              (and (= (Eval (CE.inner p h) d (withLocals ao (ite (= (kind v) 21) (bindMap (ao.locals ao) p h (Sl.RV.at ks i)) (bindList (ao.locals ao) p h i))) h) O.F) (= (CE.op p h) s.ALL)))
          (Eval (CE.inner p h) d (withLocals ao (ite (= (kind v) 21) (bindMap (ao.locals ao) p h (Sl.RV.at ks i)) (bindList (ao.locals ao) p h i))) h)
          (FoldColl p d ao h v ks (+ i 1))))))))
(define-fun collVal ((p Int) (d Any) (ao AOpts) (h ASTHeap)) RV (valueOf (R.v (Resolve d (CE.path p h) ao))))
(define-fun EvalCollP.unfold ((p Int) (d Any) (ao AOpts) (h ASTHeap)) Bool
  (= (EvalCollP p d ao h)
     (ite ((_ is R.err) (Resolve d (CE.path p h) ao)) O.E
     (ite ((_ is R.absent) (Resolve d (CE.path p h) ao)) (b3 (= (CE.op p h) s.ALL))
     (ite (= (kind (collVal p d ao h)) 21)
          (ite (not (= (tkey (rtype (collVal p d ao h))) T.string)) O.E
               (FoldColl p d ao h (collVal p d ao h) (sortedKeys (collVal p d ao h)) 0))
     (ite (or (= (kind (collVal p d ao h)) 23) (= (kind (collVal p d ao h)) 17))
          (FoldColl p d ao h (collVal p d ao h) Sl.RV.nil 0)
          O.E))))))
